"""Driver shared by every property: corpus replay, exhaustive enumerations, seeded Hypothesis search
(sharded over processes in the thorough tier), known-finding matching, shrinking to a replay file,
evidence writing and exit codes.

A property module (props/cNN_*.py) provides:

  ID, TITLE, RULE (str), ASSUMPTIONS (list of str)
  strategy(tier)            -> Hypothesis strategy producing JSON-able cases
  run_case(case)            -> dict(classes=[...], nontrivial=bool); raises core.Violation
  enumerate_cases(tier)     -> optional; iterable of (space_name, case); finite spaces enumerated completely
  budget(tier)              -> dict(examples=int, shards=int)
  MANDATORY                 -> optional list of class tags that must be non-empty (vacuity guard)
  witnesses()               -> optional list of (finding_id, case) deterministic witnesses of known findings
"""
import collections
import glob
import json
import os
import sys
import time
import traceback

from . import env
from . import core

EXIT_OK, EXIT_VIOLATION, EXIT_HARNESS = 0, 1, 2


def load_known_findings(pid):
    path = os.path.join(env.VERIF_DIR, "known_findings.json")
    with open(path) as f:
        data = json.load(f)
    return [k for k in data.get("known", []) if k["property"] == pid]


def kf_match(known, v):
    """a violation matches a listed finding when every key of the finding's `sig` is present with the
    same value in the violation's signature (call site + input class computed by the check)"""
    for k in known:
        sig = k["sig"]
        have = dict(v.sig or {}, kind=v.kind)
        if all(_sig_eq(have.get(key), val) for key, val in sig.items()):
            return k
    return None


def _sig_eq(got, want):
    if isinstance(want, list):
        return got in want
    return got == want


class Stats(object):
    def __init__(self):
        self.evaluations = 0
        self.classes = collections.Counter()
        self.nontrivial = set()
        self.samples = []
        self.known = collections.Counter()
        self.excluded = 0
        self.spaces = collections.OrderedDict()
        self.replayed = 0
        self.budget_exhausted = False

    def record(self, case, info, sample_cap=6):
        info = info or {}
        for c in info.get("classes", ()):
            self.classes[c] += 1
        self.excluded += info.get("excluded", 0)
        if "sub" in info:
            # a grouped case: every sub-case (digest, nontrivial) is one evaluation
            self.evaluations += len(info["sub"])
            before = len(self.nontrivial)
            for d, nt in info["sub"]:
                if nt:
                    self.nontrivial.add(d)
            if len(self.nontrivial) > before and len(self.samples) < sample_cap and (self.evaluations % 5 == 0 or len(self.samples) < 2):
                self.samples.append(core.jsonable(case))
            return
        self.evaluations += 1
        if info.get("nontrivial"):
            d = core.digest(case)
            if d not in self.nontrivial:
                self.nontrivial.add(d)
                if len(self.samples) < sample_cap and (len(self.nontrivial) % 7 == 1 or len(self.samples) < 2):
                    self.samples.append(core.jsonable(case))

    def merge(self, other):
        self.evaluations += other.evaluations
        self.classes.update(other.classes)
        self.nontrivial |= other.nontrivial
        for s in other.samples:
            if len(self.samples) < 8:
                self.samples.append(s)
        self.known.update(other.known)
        self.excluded += other.excluded
        for k, v in other.spaces.items():
            self.spaces[k] = self.spaces.get(k, 0) + v
        self.replayed += other.replayed
        self.budget_exhausted = self.budget_exhausted or other.budget_exhausted


def run_one(mod, case, known, stats, origin):
    """run one case; returns None, or (case, Violation) for a violation not listed as known.
    The case goes through a JSON round trip first, so that what runs is exactly what a replay file holds."""
    case = json.loads(json.dumps(case))
    try:
        info = mod.run_case(case)
    except core.Violation as v:
        k = kf_match(known, v)
        if k is not None:
            stats.evaluations += 1
            stats.known[k["id"]] += 1
            return None
        # a grouped case names the failing sub-case itself
        return (getattr(v, "case", None) or case, v)
    stats.record(case, info)
    return None


def hypothesis_search(mod, tier, seed, examples, known, deadline_s=None):
    """seeded Hypothesis run; returns (stats, failure) where failure is None or (minimal case, Violation)"""
    import hypothesis
    from hypothesis import given, settings, HealthCheck, Phase

    stats = Stats()
    last = {}
    t_end = time.time() + deadline_s if deadline_s else None

    phases = [Phase.generate, Phase.shrink]

    @hypothesis.seed(seed)
    @settings(max_examples=examples, deadline=None, database=None, derandomize=False,
              report_multiple_bugs=False, phases=phases,
              suppress_health_check=[HealthCheck.too_slow, HealthCheck.data_too_large, HealthCheck.large_base_example])
    @given(mod.strategy(tier))
    def test(case):
        if t_end is not None and not last and time.time() > t_end:
            stats.budget_exhausted = True
            return
        r = run_one(mod, case, known, stats, "generated")
        if r is not None:
            last["f"] = r
            raise r[1]

    try:
        test()
    except core.Violation:
        return stats, last["f"]
    return stats, None


def _shard(args):
    modname, tier, seed, examples, deadline_s, repo, fake_nc = args
    try:
        os.environ["VERIF_REPO"] = repo
        env.import_dimarray(fake_netcdf=fake_nc)
        import importlib
        mod = importlib.import_module(modname)
        known = load_known_findings(mod.ID)
        stats, failure = hypothesis_search(mod, tier, seed, examples, known, deadline_s)
        f = None
        if failure is not None:
            f = (failure[0], failure[1].kind, failure[1].detail, failure[1].sig)
        return ("ok", stats, f)
    except BaseException as e:  # harness problem inside a shard
        return ("error", traceback.format_exc(), None)


def write_replay(pid, case, v, seed, tier):
    d = os.path.join(os.environ.get("VERIF_REPLAY_DIR") or os.path.join(env.VERIF_DIR, "replays"), pid)
    os.makedirs(d, exist_ok=True)
    path = os.path.join(d, "%s-%s.json" % (pid, core.digest(case)))
    with open(path, "w") as f:
        json.dump({"property": pid, "case": case,
                   "violation": {"kind": v[0], "detail": core.jsonable(v[1]), "sig": core.jsonable(v[2])},
                   "found_by": {"seed": seed, "tier": tier}}, f, indent=1, sort_keys=True, default=core.jsonable)
    return os.path.relpath(path, env.VERIF_DIR)


def write_evidence(mod, tier, seed, stats, wall, violations, extra=None):
    if os.environ.get("VERIF_NO_EVIDENCE"):   # sensitivity self-tests against patched scratch copies
        return None
    d = os.path.join(env.VERIF_DIR, "evidence")
    os.makedirs(d, exist_ok=True)
    cov = {
        "evaluations": int(stats.evaluations),
        "distinct_nontrivial": int(len(stats.nontrivial)),
        "rule": mod.RULE,
        "samples": stats.samples[:8],
        "classes": dict(sorted(stats.classes.items())),
        "exhaustive": bool(stats.spaces) and not stats.budget_exhausted,
        "exhaustive_spaces": dict(stats.spaces),
        "exhaustive_note": "exhaustive refers to the finite sub-spaces listed in exhaustive_spaces (enumerated completely); the generated part is a seeded sample",
        "excluded_by_construction": int(stats.excluded),
        "known_findings_seen": dict(stats.known),
        "replayed_corpus": int(stats.replayed),
        "budget_exhausted": bool(stats.budget_exhausted),
    }
    if extra:
        cov.update(extra)
    ev = {
        "property_id": mod.ID,
        "tier": tier,
        "seed": int(seed),
        "level": "exploration",
        "coverage": cov,
        "assumptions": list(getattr(mod, "ASSUMPTIONS", [])),
        "wall_s": round(wall, 2),
        "violations": int(violations),
    }
    path = os.path.join(d, "%s.json" % mod.ID)
    tmp = path + ".tmp"
    with open(tmp, "w") as f:
        json.dump(ev, f, indent=1, sort_keys=True, default=core.jsonable)
    os.replace(tmp, path)
    return path


def load_case_file(path):
    with open(path) as f:
        d = json.load(f)
    return d["case"] if isinstance(d, dict) and "case" in d else d


def main(mod, tier, seed, replay=None, shards=None, examples=None):
    t0 = time.time()
    pid = mod.ID
    fake_nc = bool(getattr(mod, "FAKE_NETCDF", False))
    env.import_dimarray(fake_netcdf=fake_nc)
    known = load_known_findings(pid)
    stats = Stats()
    failures = []  # (case, kind, detail, sig)

    def note(r):
        if r is not None:
            failures.append((r[0], r[1].kind, r[1].detail, r[1].sig))

    # ---- replay mode: one file, no generator library -------------------------------------------
    if replay:
        case = load_case_file(replay)
        note(run_one(mod, case, known, stats, "replay"))
        if failures:
            c, kind, detail, sig = failures[0]
            print("replay: %s %s" % (kind, json.dumps(core.jsonable(detail))[:1500]))
            print("VIOLATION property=%s replay=%s" % (pid, replay))
            return EXIT_VIOLATION
        print("replay: property %s held on %s" % (pid, replay))
        return EXIT_OK

    # ---- 1. regression corpus ------------------------------------------------------------------
    for path in sorted(glob.glob(os.path.join(env.VERIF_DIR, "corpus", pid, "*.json"))):
        case = load_case_file(path)
        stats.replayed += 1
        r = run_one(mod, case, known, stats, "corpus")
        if r is not None:
            note(r)
            break

    # ---- 2. witnesses of known findings (print KNOWN-FINDING only while they still fail) -------
    witness_seen = collections.OrderedDict()
    if hasattr(mod, "witnesses"):
        for fid, case in mod.witnesses():
            try:
                mod.run_case(case)
            except core.Violation as v:
                k = kf_match(known, v)
                if k is not None and k["id"] == fid:
                    witness_seen[fid] = k
                    stats.known[fid] += 1
                else:
                    note((case, v))

    # ---- 3. exhaustive sub-spaces --------------------------------------------------------------
    if not failures and hasattr(mod, "enumerate_cases"):
        for space, case in mod.enumerate_cases(tier):
            stats.spaces[space] = stats.spaces.get(space, 0) + 1
            r = run_one(mod, case, known, stats, "enumerated")
            if r is not None:
                note(r)
                break

    # ---- 4. generated search -------------------------------------------------------------------
    b = mod.budget(tier)
    n_shards = shards or b.get("shards", 1)
    n_examples = examples or b["examples"]
    if not failures and n_examples > 0:
        if n_shards <= 1:
            st, f = hypothesis_search(mod, tier, seed, n_examples, known)
            stats.merge(st)
            if f is not None:
                note(f)
        else:
            import multiprocessing
            ctx = multiprocessing.get_context("fork")
            args = [(mod.__name__, tier, seed * 1000 + i, n_examples, None, env.REPO, fake_nc) for i in range(n_shards)]
            with ctx.Pool(min(n_shards, os.cpu_count() or 1)) as pool:
                results = pool.map(_shard, args, chunksize=1)
            for status, st, f in results:
                if status == "error":
                    sys.stderr.write(st)
                    env.harness_error("shard failed")
                stats.merge(st)
                if f is not None:
                    failures.append(f)

    # ---- 4b. top-up: a mandatory class that this seed happened not to draw gets up to three further passes (seeds derived from
    # VERIF_SEED, so the run stays a function of it); their cases are checked like all others
    topups = 0
    while not failures and n_examples > 0 and topups < 3 and [c for c in getattr(mod, "MANDATORY", []) if stats.classes.get(c, 0) == 0]:
        topups += 1
        st, f = hypothesis_search(mod, tier, seed * 1000 + 900 + topups, n_examples, known)
        stats.merge(st)
        if f is not None:
            note(f)

    # ---- 5. vacuity guard ----------------------------------------------------------------------
    if not failures:
        missing = [c for c in getattr(mod, "MANDATORY", []) if stats.classes.get(c, 0) == 0]
        if missing:
            write_evidence(mod, tier, seed, stats, time.time() - t0, 0, {"vacuity_missing_classes": missing})
            env.harness_error("generator never produced mandatory classes: %s" % missing)
        if len(stats.nontrivial) < 2:
            env.harness_error("fewer than 2 distinct non-trivial cases")

    # ---- 6. report -----------------------------------------------------------------------------
    for k in known:
        if stats.known.get(k["id"], 0) > 0:
            print("KNOWN-FINDING: property=%s %s [%s; seen %d time(s) this run]" % (pid, k["what"], k["id"], stats.known[k["id"]]))
    wall = time.time() - t0
    write_evidence(mod, tier, seed, stats, wall, len(failures))
    print("%s %s seed=%d: %d evaluations, %d distinct non-trivial, %d enumerated in %d exhaustive space(s), %d corpus, %.1fs"
          % (pid, tier, seed, stats.evaluations, len(stats.nontrivial), sum(stats.spaces.values()), len(stats.spaces), stats.replayed, wall))
    if failures:
        # smallest failing description first
        failures.sort(key=lambda f: len(json.dumps(core.jsonable(f[0]))))
        case, kind, detail, sig = failures[0]
        path = write_replay(pid, case, (kind, detail, sig), seed, tier)
        print("violation: %s %s" % (kind, json.dumps(core.jsonable(detail))[:1500]))
        print("VIOLATION property=%s replay=%s" % (pid, path))
        return EXIT_VIOLATION
    return EXIT_OK
