"""Shared Hypothesis strategies.  Everything they produce is a plain JSON-able description.

Constructive, no assume()/filter() on the hot path.  Every random choice goes through Hypothesis.
"""
from hypothesis import strategies as st

NAMES = ["x", "y", "z", "w"]
SUBNAMES = ["t", "lat", "at", "la"]     # names that are substrings of one another / of a comma-joined group name
DEFAULTISH = ["x1", "x0", "x3", "x2"]   # the library's default names x<i>, attached to other positions than i
WORDS = ["a", "b", "c", "d", "e", "f", "g", "h", "k", "m"]
NUMWORDS = ["2", "10", "7", "05", "1e3", "-1", "3.5"]        # strings that look like numbers (they are strings)
PREFIXWORDS = ["run1", "run10", "run2", "run20", "ru", "run", "b1", "b"]      # words that are prefixes of one another, of different lengths


def names_pool():
    """dimension names: usually x/y/z/w, sometimes names that are substrings of one another"""
    from hypothesis import strategies as st
    return st.integers(0, 9).map(lambda k: SUBNAMES if k == 0 else (DEFAULTISH if k == 1 else NAMES))


def order_of(labels):
    n = len(labels)
    if n < 2:
        return "short"
    if any(isinstance(l, str) for l in labels) and not all(isinstance(l, str) for l in labels):
        return "mixed"
    if all(labels[i] < labels[i + 1] for i in range(n - 1)):
        return "inc"
    if all(labels[i] > labels[i + 1] for i in range(n - 1)):
        return "dec"
    return "shuf"


@st.composite
def labels(draw, n, kind=None, order=None, kinds="ifs"):
    """n unique labels of one kind: 'i' ints, 'f' floats (mostly dyadic k/4, sometimes decimal k/10, which are neither exactly
    representable nor float32-safe), 's' short words"""
    kind = kind or draw(st.sampled_from(list(kinds)))
    order = order or draw(st.sampled_from(["inc", "dec", "shuf"]))
    if kind == "i":
        c = draw(st.integers(0, 11))
        if n and c in (0, 1):
            vals = list(draw(st.permutations(list(range(n)))))      # labels that are valid positions (0..n-1) in another order
        elif c == 2:
            # large integers with small spacing (dates written as YYYYMMDD): beyond 2**24, where single precision no longer tells neighbours apart
            vals = [20240100 + k for k in draw(st.lists(st.integers(1, 28), min_size=n, max_size=n, unique=True))]
        else:
            vals = draw(st.lists(st.integers(-6, 14), min_size=n, max_size=n, unique=True))
    elif kind == "f":
        ks = draw(st.lists(st.integers(-12, 28), min_size=n, max_size=n, unique=True))
        c = draw(st.integers(0, 7))
        if c == 0:
            vals = [2000.0 + k / 100.0 for k in ks]       # large magnitude, small spacing (relative differences of 5e-6)
        elif c == 3 and n:
            vals = [float(i) for i in draw(st.permutations(list(range(n))))]      # 0.0 .. n-1.0: float labels that look like default positions
        else:
            vals = [k / 10.0 for k in ks] if c in (1, 2) else [k / 4.0 for k in ks]
    else:
        c = draw(st.integers(0, 15))
        pool_ = NUMWORDS if (c in (0, 1) and n <= len(NUMWORDS)) else (PREFIXWORDS if (c in (2, 3) and n <= len(PREFIXWORDS)) else WORDS)
        vals = draw(st.lists(st.sampled_from(pool_), min_size=n, max_size=n, unique=True))
    if order == "inc":
        vals = sorted(vals)
    elif order == "dec":
        vals = sorted(vals, reverse=True)
    return vals


@st.composite
def history(draw, labs_per_dim):
    """how the array came about (see core.build): a history must not change any answer"""
    mode = draw(st.sampled_from(["none", "none", "none", "warm", "slice", "relabel", "transposed", "fortran", "copyof", "renamed", "reused", "reused"]))
    h = {"mode": mode}
    if mode == "renamed":
        h["via"] = draw(st.sampled_from(["dims", "axis-names"]))
    if mode == "relabel":
        h["via"] = draw(st.sampled_from(["set_axis", "set_axis", "values-setter-ndarray", "values-setter-list"]))
        h["init"] = draw(st.sampled_from(["sorted", "shuffled"]))      # the labels the array had when it was queried, before the in-place relabelling
    if mode == "slice":
        front, back = [], []
        for labs in labs_per_dim:
            kind = "s" if any(isinstance(x, str) for x in labs) else ("f" if any(isinstance(x, float) for x in labs) else "i")
            nf, nb = draw(st.integers(0, 2)), draw(st.integers(0, 2))
            if kind == "s":
                extra = ["zq%d" % i for i in range(nf + nb)]
            else:
                hi = max(labs) if labs else 0
                lo = min(labs) if labs else 0
                extra = [(hi + 30 + 2 * i) if i % 2 == 0 else (lo - 30 - 2 * i) for i in range(nf + nb)]
                if kind == "f":
                    extra = [float(x) for x in extra]
            front.append(extra[:nf])
            back.append(extra[nf:])
        h["front"], h["back"] = front, back
    return h


@st.composite
def array_spec(draw, min_dims=0, max_dims=4, min_size=0, max_size=4, kinds="ifs", vks="fi", nan=False,
               names=None, dims=None, square=False, hist=True):
    """description of a DimArray (see core.build)"""
    if names is None:
        names = draw(names_pool())
    if dims is None:
        nd = draw(st.integers(min_dims, max_dims))
        dims = list(draw(st.permutations(names)))[:nd]
    sizes = [draw(st.integers(min_size, max_size)) for _ in dims]
    if max_size >= 4 and 1 <= len(dims) <= 2 and draw(st.integers(0, 9)) == 0:
        sizes[draw(st.integers(0, len(dims) - 1))] = draw(st.integers(6, 9))     # an occasional longer axis
    if square and len(dims) >= 2 and draw(st.booleans()):
        sizes = [sizes[0]] * len(dims)
    labs = [draw(labels(n, kinds=kinds)) for n in sizes]
    spec = {"dims": list(dims), "labels": labs, "vk": draw(st.sampled_from(list(vks))), "base": draw(st.integers(0, 40))}
    if nan and spec["vk"] == "f":
        ncell = 1
        for n in sizes:
            ncell *= n
        if ncell:
            mode = draw(st.sampled_from(["none", "sparse", "sparse", "all"]))
            if mode == "sparse":
                spec["nan"] = draw(st.lists(st.integers(0, ncell - 1), min_size=1, max_size=max(1, ncell // 2), unique=True))
            elif mode == "all":
                spec["nan"] = list(range(ncell))
    if hist:
        spec["hist"] = draw(history(labs))
    return spec


@st.composite
def position_list(draw, n, min_size=1, max_size=4):
    """positions in [-n, n-1]: arbitrary (with repeats), or a run of consecutive positions possibly counted from the end or
    crossing zero ([-2, -1], [-1, 0, 1]) - what an implementation may be tempted to turn into a slice"""
    if n >= 2 and max_size >= 2 and draw(st.integers(0, 3)) == 0:
        start = draw(st.integers(-n, n - 2))
        return list(range(start, min(start + draw(st.integers(2, min(3, max_size))), n)))
    return draw(st.lists(st.integers(-n, n - 1), min_size=min_size, max_size=max_size))


def absent_label(labs, kind, where, k=0):
    """a label of the same kind that is not on the axis: below / between / above the existing ones"""
    if kind == "s":
        pool = [w for w in ["A", "bb", "cz", "zz", "e_", "q"] if w not in labs]
        srt = sorted(labs)
        if where == "below":
            return "A"
        if where == "above":
            return "zz"
        if len(srt) >= 2:
            return srt[0] + "_"   # sorts right after the smallest label
        return pool[k % len(pool)]
    if not labs:
        return 1 if kind == "i" else 1.5
    srt = sorted(labs)
    if where == "below":
        v = srt[0] - 1 - k
    elif where == "above":
        v = srt[-1] + 1 + k
    else:
        # strictly between two neighbours if there is a gap, else fall back to above
        v = None
        for a, b in zip(srt, srt[1:]):
            if kind == "f" or b - a >= 2:
                v = (a + b) / 2.0 if kind == "f" else a + 1
                break
        if v is None:
            v = srt[-1] + 1 + k
    return int(v) if kind == "i" else float(v)


RELATIONS = ["equal", "permuted", "subset", "superset", "overlapping", "disjoint", "interior", "inner-permuted"]


@st.composite
def related_labels(draw, base, kind, relation=None, allow_empty=False, order=None):
    """label vector constructed from `base` so that the interesting overlap classes are frequent"""
    rel = relation or draw(st.sampled_from(RELATIONS + (["empty"] if allow_empty else [])))
    base = list(base)

    def fresh(n, avoid):
        out = []
        if kind == "s":
            pool = [w for w in WORDS + ["n", "p", "q", "r", "s", "t"] if w not in avoid]
            idx = draw(st.lists(st.integers(0, len(pool) - 1), min_size=n, max_size=n, unique=True))
            return [pool[i] for i in idx]
        ks = draw(st.lists(st.integers(15, 40), min_size=n, max_size=n, unique=True))
        for k in ks:
            out.append(k if kind == "i" else k / 4.0 + 10)
        return out

    if rel == "equal":
        new = list(base)
    elif rel == "permuted":
        new = list(draw(st.permutations(base)))
    elif rel == "subset":
        keep = draw(st.lists(st.booleans(), min_size=len(base), max_size=len(base)))
        new = [b for b, k in zip(base, keep) if k]
        if not new and base and not allow_empty:
            new = [base[0]]
    elif rel == "superset":
        new = list(base) + fresh(draw(st.integers(1, 2)), base)
    elif rel == "overlapping":
        keep = draw(st.lists(st.booleans(), min_size=len(base), max_size=len(base)))
        new = [b for b, k in zip(base, keep) if k] + fresh(draw(st.integers(1, 2)), base)
    elif rel == "inner-permuted":
        # the same labels with the first and the last one in place and the others in another order (needs four labels)
        if len(base) >= 4:
            mid = list(draw(st.permutations(base[1:-1])))
            if mid == base[1:-1]:
                mid = mid[::-1]
            new = [base[0]] + mid + [base[-1]]
        else:
            new = list(base)[::-1]
    elif rel == "interior":
        # same length, same first and last label, other labels in between (where that is possible)
        if len(base) >= 3:
            mid = fresh(len(base) - 2, base)
            new = [base[0]] + mid + [base[-1]]
        else:
            new = list(base) + fresh(1, base)
    elif rel == "disjoint":
        new = fresh(draw(st.integers(1, 3)), base)
    elif rel == "empty":
        new = []
    else:
        raise ValueError(rel)
    o = order or draw(st.sampled_from(["asis", "inc", "dec", "shuf"]))
    if rel in ("inner-permuted", "interior") and order is None and draw(st.booleans()):
        o = "asis"
    if o == "inc":
        new = sorted(new)
    elif o == "dec":
        new = sorted(new, reverse=True)
    elif o == "shuf":
        new = list(draw(st.permutations(new)))
    return rel, new


def relation_of(a, b):
    sa, sb = set(a), set(b)
    if not sb or not sa:
        return "empty"
    if list(a) == list(b):
        return "equal"
    if sa == sb:
        return "permuted"
    if sb < sa:
        return "subset"
    if sa < sb:
        return "superset"
    if sa & sb:
        return "overlapping"
    return "disjoint"


# ----------------------------------------------------------------------------------------------
# collections of arrays / datasets over a common pool of dimensions
# ----------------------------------------------------------------------------------------------

@st.composite
def dim_pool(draw, names=None, kinds="ifs", min_size=1, max_size=4):
    names = names or NAMES
    pool = {}
    for d in names:
        kind = draw(st.sampled_from(list(kinds)))
        pool[d] = {"kind": kind, "labels": draw(labels(draw(st.integers(min_size, max_size)), kind=kind))}
    return pool


@st.composite
def member_labels(draw, pool, d, allow_empty=False, relations=None, mix_int_float=True):
    kind = pool[d]["kind"]
    rel, labs = draw(related_labels(pool[d]["labels"], kind, relation=draw(st.sampled_from(relations)) if relations else None,
                                    allow_empty=allow_empty))
    if mix_int_float and kind == "i":
        mix = draw(st.integers(0, 9))
        if mix == 0:
            labs = [float(x) for x in labs]                                       # same labels, stored as floats
        elif mix == 1:
            frac = draw(st.sampled_from([0.5, 0.1, 0.7]))
            labs = [x + frac if draw(st.booleans()) else float(x) for x in labs]  # float axis, some labels between the integers
    return labs


@st.composite
def array_over_pool(draw, pool, min_dims=0, max_dims=3, vks="fi", allow_empty=False, relations=None, nan=False, dims=None):
    names = list(pool)
    if dims is None:
        nd = draw(st.integers(min_dims, max_dims))
        dims = list(draw(st.permutations(names)))[:nd]
    labs = [draw(member_labels(pool, d, allow_empty=allow_empty, relations=relations)) for d in dims]
    spec = {"dims": list(dims), "labels": labs, "vk": draw(st.sampled_from(list(vks))), "base": draw(st.integers(0, 40))}
    if nan and spec["vk"] == "f":
        n = 1
        for l in labs:
            n *= len(l)
        if n and draw(st.booleans()):
            spec["nan"] = draw(st.lists(st.integers(0, n - 1), min_size=1, max_size=max(1, n // 2), unique=True))
    spec["hist"] = draw(history(labs))
    return spec


@st.composite
def dataset_over_pool(draw, pool, min_vars=1, max_vars=3, max_dims=3, allow_empty=False, relations=None, vks="fi", var_names=None):
    """{"vars": [[name, spec], ...], "attrs": {...}}: variables share one label vector per dimension"""
    names = list(pool)
    nd = draw(st.integers(1, max_dims))
    dsdims = list(draw(st.permutations(names)))[:nd]
    dlabels = {d: draw(member_labels(pool, d, allow_empty=allow_empty, relations=relations, mix_int_float=False)) for d in dsdims}
    nv = draw(st.integers(min_vars, max_vars))
    out = []
    vnames = var_names or ["va", "vb", "vc", "vd"]
    for i in range(nv):
        k = draw(st.integers(0, len(dsdims)))
        vd = list(draw(st.permutations(dsdims)))[:k]
        out.append([vnames[i], {"dims": vd, "labels": [dlabels[d] for d in vd], "vk": draw(st.sampled_from(list(vks))),
                                "base": draw(st.integers(0, 40)), "hist": draw(history([dlabels[d] for d in vd]))}])
    return {"vars": out}
