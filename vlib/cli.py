"""command line of ./check"""
import argparse
import glob
import importlib
import os
import sys
import traceback

from . import env


def find_module(pid):
    here = os.path.join(env.VERIF_DIR, "props")
    m = glob.glob(os.path.join(here, pid.lower() + "_*.py"))
    if len(m) != 1:
        env.harness_error("no unique module for property %s under props/" % pid)
    return "props." + os.path.basename(m[0])[:-3]


def main(argv=None):
    ap = argparse.ArgumentParser()
    ap.add_argument("property")
    ap.add_argument("--tier", default=os.environ.get("VERIF_TIER", "quick"), choices=["quick", "thorough"])
    ap.add_argument("--replay")
    ap.add_argument("--seed", type=int, default=None)
    ap.add_argument("--shards", type=int, default=None)
    ap.add_argument("--examples", type=int, default=None)
    a = ap.parse_args(argv)
    seed = a.seed if a.seed is not None else env.seed_from_env(1)
    sys.path.insert(0, env.VERIF_DIR)
    try:
        modname = find_module(a.property.upper())
        # the netCDF stand-in must be on the path before dimarray is first imported
        fake = a.property.upper() in ("C19", "C20")
        env.import_dimarray(fake_netcdf=fake)
        mod = importlib.import_module(modname)
        from . import run
        code = run.main(mod, a.tier, seed, replay=a.replay, shards=a.shards, examples=a.examples)
    except SystemExit:
        raise
    except BaseException:
        traceback.print_exc()
        env.harness_error("unexpected exception in the harness (see traceback)")
    sys.stdout.flush()
    os._exit(code)


if __name__ == "__main__":
    main()
