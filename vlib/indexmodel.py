"""Index descriptors (JSON) -> (a) the object handed to the library, (b) what the property says
must be selected, computed on plain Python lists (no searchsorted / argsort / Axis.loc).

Descriptor forms (per dimension):
  {"k": "full"}
  {"k": "scalar", "v": label, "np": bool}                label mode; absent label -> IndexError
  {"k": "list", "v": [labels...], "as": "list"|"array"}  repeated / empty allowed; absent -> IndexError
  {"k": "mask", "v": [bools]}
  {"k": "slice", "v": [start, stop, step]}               label slice (C02 rules)
  {"k": "pscalar", "v": int} / {"k": "plist", "v": [ints], "as":...} / {"k": "pslice", "v": [i, j, k]}   position mode
"""
import numpy as np

from .core import canon_label, label_kind


class Expected(Exception):
    """the property prescribes this exception type for the index"""

    def __init__(self, types, why):
        Exception.__init__(self, why)
        self.types = types
        self.why = why


def is_numeric_labels(labels):
    return len(labels) == 0 or label_kind(labels) in "if"


def monotonic(labels):
    n = len(labels)
    inc = all(labels[i] < labels[i + 1] for i in range(n - 1))
    dec = all(labels[i] > labels[i + 1] for i in range(n - 1))
    return inc, dec


def slice_positions(labels, start, stop, step, numeric=None):
    """list of acceptable answers (each a list of positions) for the label slice start:stop:step.

    Monotonic numeric axis: inclusive bounding box in walking order.  Several answers are acceptable
    only where the statement leaves the direction open (axes of length < 2) or where the bounds are
    given against the walking direction (see DESIGN 6.2)."""
    labels = list(labels)
    n = len(labels)
    if numeric is None:
        numeric = is_numeric_labels(labels)
    neg = step is not None and step < 0
    k = abs(step) if step is not None else 1
    inc, dec = monotonic(labels)
    if numeric and (inc or dec):
        order = list(range(n))[::-1] if neg else list(range(n))

        def sel(asc):
            out = []
            for p in order:
                l = labels[p]
                if start is not None and not (l >= start if asc else l <= start):
                    continue
                if stop is not None and not (l <= stop if asc else l >= stop):
                    continue
                out.append(p)
            return out[::k]

        if n >= 2:
            asc_axis = inc            # direction of the stored axis
            asc = asc_axis != neg     # direction of the walk
            answers = [sel(asc)]
            if start is not None and stop is not None and ((asc and start > stop) or (not asc and start < stop)):
                lo, hi = min(start, stop), max(start, stop)
                answers.append([p for p in order if lo <= labels[p] <= hi][::k])
        else:
            # fewer than two labels: the axis has no direction of its own
            if start is not None and stop is not None:
                lo, hi = min(start, stop), max(start, stop)
                boxed = [p for p in order if lo <= labels[p] <= hi][::k]
                natural = (start <= stop) if not neg else (start >= stop)
                # bounds given in the natural order of the walk (lo:hi, or hi:lo:-1): the label between them is selected;
                # against it: empty or the bounding box are both accepted, as for longer axes
                answers = [boxed] if natural else [[], boxed]
            else:
                answers = [sel(True), sel(False)]
        uniq = []
        for a in answers:
            if a not in uniq:
                uniq.append(a)
        return uniq
    # strict rule: both bounds must be labels
    pos = {}
    for i, l in enumerate(labels):
        pos.setdefault(canon_label(l), i)
    for b in (start, stop):
        if b is not None and canon_label(b) not in pos:
            raise Expected((IndexError,), "slice bound %r is not a label of a non-numeric / non-monotonic axis" % (b,))
    if n == 0:
        return [[]]
    i0 = pos[canon_label(start)] if start is not None else (n - 1 if neg else 0)
    i1 = pos[canon_label(stop)] if stop is not None else (0 if neg else n - 1)
    rng = list(range(i0, i1 - 1, -1)) if neg else list(range(i0, i1 + 1))
    return [rng[::k]]


def positions(labels, desc, tol=None):
    """-> ("scalar", pos) | ("list", [pos...]) | ("alts", [[pos...], ...]); raises Expected"""
    labels = list(labels)
    k = desc["k"]
    if k == "full":
        return ("list", list(range(len(labels))))
    canon = [canon_label(l) for l in labels]
    if k == "scalar":
        v = desc["v"]
        if tol is not None and is_numeric_labels(labels) and len(labels):
            dist = [abs(l - v) for l in labels]
            m = min(dist)
            if m > tol:
                raise Expected((IndexError,), "nearest label farther than tol")
            return ("alts_scalar", [i for i, d in enumerate(dist) if d == m])
        c = canon_label(v)
        if c not in canon:
            raise Expected((IndexError,), "absent label %r" % (v,))
        return ("scalar", canon.index(c))
    if k == "list":
        out = []
        if tol is not None and is_numeric_labels(labels) and len(labels):
            alts = []
            for v in desc["v"]:
                dist = [abs(l - v) for l in labels]
                m = min(dist)
                if m > tol:
                    raise Expected((IndexError,), "nearest label farther than tol")
                alts.append([i for i, d in enumerate(dist) if d == m])
            return ("alts_list", alts)
        for v in desc["v"]:
            c = canon_label(v)
            if c not in canon:
                raise Expected((IndexError,), "absent label %r in list" % (v,))
            out.append(canon.index(c))
        return ("list", out)
    if k == "mask":
        return ("list", [i for i, b in enumerate(desc["v"]) if b])
    if k == "slice":
        alts = slice_positions(labels, *desc["v"])
        if len(alts) == 1:
            return ("list", alts[0])
        return ("alts", alts)
    n = len(labels)
    if k == "pscalar":
        i = desc["v"]
        if not -n <= i < n:
            raise Expected((IndexError,), "position out of range")
        return ("scalar", i % n)
    if k == "plist":
        for i in desc["v"]:
            if not -n <= i < n:
                raise Expected((IndexError,), "position out of range")
        return ("list", [i % n for i in desc["v"]])
    if k == "pmask":
        return ("list", [i for i, b in enumerate(desc["v"]) if b])
    if k == "pslice":
        return ("list", list(range(n))[slice(*desc["v"])])
    raise ValueError(desc)


def index_object(desc):
    """the Python object that is handed to the library for this descriptor"""
    k = desc["k"]
    if k == "full":
        return slice(None)
    if k in ("scalar", "pscalar"):
        v = desc["v"]
        if desc.get("np"):
            return np.array([v])[0] if not isinstance(v, str) else v
        return v
    if k in ("list", "plist"):
        v = list(desc["v"])
        if desc.get("as") == "array":
            if any(isinstance(x, str) for x in v):
                return np.array(v, dtype=object)
            if not v:
                return np.array(v, dtype=int)
            return np.array(v)
        if desc.get("as") == "tuple":
            return tuple(v)
        return v
    if k in ("mask", "pmask"):
        if desc.get("as") == "list":
            return [bool(x) for x in desc["v"]]        # a boolean mask written as a plain Python list
        return np.array(desc["v"], dtype=bool)
    if k in ("slice", "pslice"):
        return slice(*desc["v"])
    raise ValueError(desc)


def is_position(desc):
    return desc["k"] in ("pscalar", "plist", "pslice", "pmask")


# ----------------------------------------------------------------------------------------------
# whole-index oracle: what a[idx] must return (orthogonal indexing)
# ----------------------------------------------------------------------------------------------

def expected_getitem(dims, labels, descs, tol=None):
    """per-dimension resolution.  Returns list of (dim, kind, payload) or raises Expected"""
    out = []
    for d, labs, desc in zip(dims, labels, descs):
        kind, payload = positions(labs, desc, tol=tol if not is_position(desc) else None)
        out.append((d, kind, payload))
    return out


def check_getitem(res, values, dims, labels, descs, what, tol=None, keepdims=False, sig=None, kinds=False):
    """compare the library's answer `res` with the model's for source (values, dims, labels).
    `values` is a plain ndarray that is only ever indexed with integer positions here."""
    from . import core
    import itertools
    per = expected_getitem(dims, labels, descs, tol=tol)
    # resolve alternatives against the labels of the result
    kept = [(d, kind, p) for d, kind, p in per if keepdims or kind not in ("scalar", "alts_scalar")]
    if not kept:
        # every dimension scalar-indexed: a scalar must come back
        core.check(not hasattr(res, "axes"), "scalar-expected", {"what": what, "got": core.brief(res)}, sig)
        choices = [([p] if kind == "scalar" else p) for d, kind, p in per]
        ok = any(core.same_scalar(res, values[tuple(c)]) for c in itertools.product(*choices))
        core.check(ok, "value", {"what": what, "got": core.jsonable(res),
                                 "expected_one_of": [core.jsonable(values[tuple(c)]) for c in itertools.product(*choices)]}, sig)
        return
    da = core.env.import_dimarray()
    core.check(isinstance(res, da.DimArray), "not-a-dimarray", {"what": what, "got": core.brief(res)}, sig)
    core.check(tuple(res.dims) == tuple(d for d, _, _ in kept), "dims",
               {"what": what, "got": list(res.dims), "expected": [d for d, _, _ in kept]}, sig)
    final = []  # per source dimension: list of positions (scalar -> single position, dropped)
    ri = 0
    for (d, kind, p), labs in zip(per, labels):
        dropped = kind in ("scalar", "alts_scalar") and not keepdims
        got = None if dropped else [core.canon_label(x) for x in res.axes[ri].values.tolist()]
        if kind == "scalar":
            alts = [[p]]
        elif kind == "alts_scalar":
            alts = [[q] for q in p]
        elif kind == "list":
            alts = [p]
        elif kind == "alts":
            alts = p
        elif kind == "alts_list":
            alts = [list(c) for c in itertools.product(*p)]
        if dropped:
            final.append(alts)   # resolved below through the values
        else:
            match = [a for a in alts if [core.canon_label(labs[q]) for q in a] == got]
            core.check(len(match) > 0, "labels", {"what": what, "dim": d, "got": core.jsonable(got),
                       "expected_one_of": [[core.jsonable(labs[q]) for q in a] for a in alts]}, sig)
            final.append([match[0]])
            if kinds and len(labs) and len(got):
                # a selection hands labels through: integer labels stay integers, strings stay strings
                ek, gk = core._pykind(labs), res.axes[ri].values.dtype.kind
                gk = "i" if gk in "iu" else ("s" if gk in "OUS" else gk)
                core.check(ek is None or gk == ek, "label-kind", {"what": what, "dim": d, "got_dtype": str(res.axes[ri].values.dtype), "source_kind": ek}, sig)
            ri += 1
    if kinds:
        # ... and the data are not converted either (also when nothing is selected)
        core.check(np.asarray(res.values).dtype == values.dtype, "value-dtype", {"what": what, "got": str(np.asarray(res.values).dtype), "source": str(values.dtype)}, sig)
    # values: orthogonal selection on the source array
    combos = list(itertools.product(*final))
    last = None
    for combo in combos:
        sel = values[np.ix_(*[np.array(c, dtype=int) for c in combo])]
        keepshape = tuple(len(c) for (d, kind, p), c in zip(per, combo) if keepdims or kind not in ("scalar", "alts_scalar"))
        sel = sel.reshape(keepshape)
        got = np.asarray(res.values)
        if got.shape == sel.shape and all(core.same_scalar(x, y) for x, y in zip(got.ravel().tolist(), sel.ravel().tolist())):
            return
        last = sel
    raise core.Violation("value", {"what": what, "got": core.brief(res), "expected_values": core.jsonable(last)}, sig=sig)
