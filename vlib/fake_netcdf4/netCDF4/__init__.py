"""Stand-in for the subset of netCDF4-python used by dimarray.io.nc (prototype).
File-backed by pickle. Semantics modelled on netCDF4-python >= 1.2 docs:
 - orthogonal indexing (ints drop dims, slices, 1-d int sequences, 1-d bool arrays)
 - unlimited dimensions grow on write past the end
 - reads return plain ndarrays when nothing is missing, MaskedArray otherwise
 - vlen str variables (datatype `str`) hold python strings in object arrays
 - NETCDF3_* formats: no str variables, no int64
"""
import os, pickle, collections
import numpy as np
__version__ = '0.0-standin'
_DEFAULT_FILL = {'f': 9.969209968386869e+36, 'i': -2147483647, 'u': 4294967295}

class Dimension(object):
    def __init__(self, name, size):
        self.name = name; self._unlimited = size is None; self._size = 0 if size is None else int(size)
    def __len__(self): return self._size
    @property
    def size(self): return self._size
    def isunlimited(self): return self._unlimited

class _HasAttrs(object):
    def _check(self):
        if self._root()._closed: raise RuntimeError("NetCDF: Not a valid ID")
    def setncattr(self, name, value):
        self._check(); self._root()._need_write()
        if isinstance(value, str): v = value
        else:
            arr = np.array(value)
            if arr.dtype.kind in 'OUS' and arr.ndim > 0 and all(isinstance(x, str) for x in arr.ravel().tolist()):
                if self._root().file_format != 'NETCDF4': raise TypeError("illegal data type for attribute %r" % name)
                v = [str(x) for x in arr.ravel().tolist()]
            elif arr.dtype.kind not in 'iuf':
                raise TypeError("illegal data type for attribute %r, must be one of dict_keys(['S1','i1','u1','i2','u2','i4','u4','i8','u8','f4','f8']), got %s" % (name, arr.dtype.str))
            else:
                if self._root().file_format.startswith('NETCDF3') and arr.dtype == np.dtype('int64'): arr = arr.astype('int32')
                v = arr.ravel().copy()
        self._attrs[name] = v
    def getncattr(self, name):
        self._check()
        if name not in self._attrs: raise AttributeError("NetCDF: Attribute not found: %s" % name)
        v = self._attrs[name]
        if isinstance(v, np.ndarray): return v[0] if v.size == 1 else v.copy()
        return v
    def delncattr(self, name):
        self._check(); self._root()._need_write()
        if name not in self._attrs: raise AttributeError("NetCDF: Attribute not found")
        del self._attrs[name]
    def ncattrs(self):
        self._check(); return list(self._attrs.keys())
    def __getattr__(self, name):
        if name.startswith('_') and name != '_FillValue': raise AttributeError(name)
        attrs = self.__dict__.get('_attrs', {})
        if name in attrs: return self.getncattr(name)
        raise AttributeError(name)

class Variable(_HasAttrs):
    def __init__(self, ds, name, datatype, dimensions, fill_value=None):
        self.__dict__['_ds'] = ds; self.__dict__['_name'] = name; self.__dict__['_attrs'] = collections.OrderedDict()
        if datatype is str or (isinstance(datatype, np.dtype) and datatype.kind in 'OUS') or datatype in ('S1', 'c') and False:
            self.__dict__['_isstr'] = True; self.__dict__['dtype'] = str
        else:
            dt = np.dtype(datatype)
            if dt.kind not in 'iuf' : raise TypeError("illegal primitive data type, must be one of ..., got %s" % dt)
            self.__dict__['_isstr'] = False; self.__dict__['dtype'] = dt
        if ds.file_format.startswith('NETCDF3'):
            if self._isstr: raise ValueError("Variable length strings are only supported for the NETCDF4 format")
            if self.dtype in (np.dtype('int64'), np.dtype('uint64')): raise RuntimeError("NetCDF: Attempting netcdf-4 operation on strict nc3 netcdf-4 file")
        self.__dict__['dimensions'] = tuple(dimensions)
        for d in self.dimensions:
            if d not in ds.dimensions: raise KeyError("cannot find dimension %s in this group or parent groups" % d)
        shape = tuple(len(ds.dimensions[d]) for d in self.dimensions)
        if self._isstr: data = np.empty(shape, dtype=object); data[...] = ''; mask = np.ones(shape, bool)
        else: data = np.zeros(shape, dtype=self.dtype); mask = np.ones(shape, bool)
        self.__dict__['_data'] = data; self.__dict__['_mask'] = mask   # mask True = never written (fill)
        if fill_value is not None: self._attrs['_FillValue'] = np.array([fill_value], dtype=None if self._isstr else self.dtype)
    def _root(self): return self._ds
    def __setattr__(self, name, value):
        if name in self.__dict__ or name.startswith('_') and name != '_FillValue': self.__dict__[name] = value
        else: self.setncattr(name, value)
    @property
    def name(self): return self._name
    @property
    def shape(self): return tuple(len(self._ds.dimensions[d]) for d in self.dimensions)
    @property
    def ndim(self): return len(self.dimensions)
    @property
    def size(self): return int(np.prod(self.shape)) if self.dimensions else 1
    def __len__(self):
        if not self.dimensions: raise TypeError("len() of unsized object")
        return self.shape[0]
    def __array__(self, dtype=None, copy=None): return np.asarray(self[...], dtype=dtype)
    def _sync_shape(self):
        shape = self.shape
        if self._data.shape != shape:
            nd = np.empty(shape, dtype=self._data.dtype); nm = np.ones(shape, bool)
            if self._isstr: nd[...] = ''
            else: nd[...] = 0
            sl = tuple(slice(0, n) for n in self._data.shape)
            nd[sl] = self._data; nm[sl] = self._mask
            self.__dict__['_data'] = nd; self.__dict__['_mask'] = nm
    def _expand(self, key, grow=False):
        # netCDF4.utils._StartCountStride: a single array or non-tuple sequence of ints applies to
        # the first dimension; any other iterable is a sequence of per-dimension indexers
        if isinstance(key, tuple): key = list(key)
        elif np.iterable(key) and not isinstance(key, (str, bytes)):
            if isinstance(key, np.ndarray) or all(isinstance(e, (int, np.integer)) for e in key): key = [key]
            else: key = list(key)
        else: key = [key]
        if any(k is Ellipsis for k in key):
            i = [j for j,k in enumerate(key) if k is Ellipsis][0]
            key[i:i+1] = [slice(None)]*(self.ndim - (len(key)-1))
        if len(key) > self.ndim: raise IndexError("too many indices")
        key += [slice(None)]*(self.ndim-len(key))
        out = []; drop = []
        for ax, k in enumerate(key):
            dim = self._ds.dimensions[self.dimensions[ax]]; n = len(dim)
            if isinstance(k, slice):
                if grow and dim.isunlimited() and k.stop is not None and k.stop > n and (k.step is None or k.step > 0):
                    self._ds._grow(dim.name, k.stop); n = len(dim)
                if grow and dim.isunlimited() and k.stop is None and (k.step in (None, 1)):
                    out.append(('open', k.start or 0)); drop.append(False); continue
                out.append(np.arange(*k.indices(n))); drop.append(False)
            elif isinstance(k, (bool, np.bool_)): raise IndexError("boolean scalar index")
            elif np.ndim(k) == 0 and isinstance(k, (int, np.integer)) or (isinstance(k, np.ndarray) and k.ndim == 0 and k.dtype.kind in 'iu'):
                k = int(k)
                if grow and dim.isunlimited() and k >= n: self._ds._grow(dim.name, k+1); n = len(dim)
                if k < -n or k >= n: raise IndexError("index exceeds dimension bounds")
                out.append(np.array([k % n if n else 0])); drop.append(True)
            else:
                a = np.asarray(k)
                if a.ndim != 1: raise IndexError("Index cannot be multidimensional")
                if a.dtype.kind == 'b':
                    if a.size != n: raise IndexError("Boolean array must have the same shape as the data along this dimension")
                    out.append(np.flatnonzero(a)); drop.append(False)
                elif a.dtype.kind in 'iu' or a.size == 0:
                    a = a.astype(int)
                    if grow and dim.isunlimited() and a.size and a.max() >= n: self._ds._grow(dim.name, int(a.max())+1); n = len(dim)
                    if a.size and (a.min() < -n or a.max() >= n): raise IndexError("integer index exceeds dimension size")
                    out.append(np.where(a < 0, a + n, a)); drop.append(False)
                else: raise IndexError("only integers, slices (`:`), ellipsis (`...`), and 1-d integer or boolean arrays are valid indices; got %r" % (k,))
        return out, drop
    def __getitem__(self, key):
        self._check(); self._sync_shape()
        idx, drop = self._expand(key)
        if self.ndim == 0:
            d, m = self._data[()], self._mask[()]
            if self._isstr: return d
            if m: return np.ma.masked_all((), dtype=self.dtype)
            return np.array(d, dtype=self.dtype)
        ix = np.ix_(*idx)
        d = self._data[ix]; m = self._mask[ix]
        fv = self._attrs.get('_FillValue')
        if not self._isstr and fv is not None:
            with np.errstate(invalid='ignore'):
                m = m | ((d == fv[0]) | ((fv[0] != fv[0]) & (d != d)) if self.dtype.kind == 'f' else (d == fv[0]))
        newshape = [len(i) for i, dr in zip(idx, drop) if not dr]
        d = d.reshape(newshape); m = m.reshape(newshape)
        if self._isstr:
            return d[()] if d.ndim == 0 else d.copy()
        if m.any(): return np.ma.MaskedArray(d.copy(), mask=m, fill_value=(fv[0] if fv is not None else _DEFAULT_FILL[self.dtype.kind]))
        return d.copy()
    def __setitem__(self, key, value):
        self._check(); self._ds._need_write(); self._sync_shape()
        if self._isstr:
            val = np.asarray(value, dtype=object)
            if not all(isinstance(x, str) for x in val.ravel().tolist()): raise TypeError("only python strings can be assigned to a vlen str variable")
        else:
            val = np.ma.asarray(value) if isinstance(value, np.ma.MaskedArray) else np.asarray(value)
            if val.dtype.kind in 'OUS': raise ValueError("cannot convert %r to %s" % (val.dtype, self.dtype))
        if self.ndim == 0:
            if val.size != 1: raise ValueError("shape mismatch")
            self._data[()] = val.reshape(())[()] if self._isstr else np.asarray(val.reshape(()), dtype=self.dtype)
            self._mask[()] = False; return
        idx, drop = self._expand(key, grow=True)
        # resolve open-ended slices on unlimited dims from the value shape
        if any(isinstance(i, tuple) for i in idx):
            kept = [j for j, dr in enumerate(drop) if not dr]
            vshape = (1,)*(len(kept)-val.ndim) + val.shape if val.ndim <= len(kept) else val.shape[-len(kept):]
            for j, i in enumerate(idx):
                if isinstance(i, tuple):
                    n = vshape[kept.index(j)]; dim = self._ds.dimensions[self.dimensions[j]]
                    stop = i[1] + n
                    if n > 1 or len(dim) < stop:
                        if stop > len(dim): self._ds._grow(dim.name, stop)
                    idx[j] = np.arange(i[1], max(len(dim), stop) if n == 1 and False else len(dim))
        self._sync_shape()
        ix = np.ix_(*idx)
        tshape = tuple(len(i) for i in idx)
        def conform(arr):
            # netCDF4.Variable.__setitem__: scalar -> tile; ndim mismatch -> reshape if same size else broadcast
            if arr.shape == (): return np.broadcast_to(arr, tshape)
            if arr.ndim != len(tshape) or (arr.shape != tshape and arr.ndim > 1):
                try: return arr.reshape(tshape)
                except ValueError: return np.broadcast_to(arr, tshape)
            if arr.shape != tshape: raise ValueError("shape mismatch: %r vs %r" % (arr.shape, tshape))
            return arr
        if isinstance(val, np.ma.MaskedArray):
            vm = conform(np.ma.getmaskarray(val)); v = conform(val.filled(0))
        else:
            v = conform(val); vm = np.zeros(tshape, bool)
        if self._isstr: self._data[ix] = v
        else:
            with np.errstate(invalid='ignore'): self._data[ix] = v.astype(self.dtype)
        self._mask[ix] = vm

class Dataset(_HasAttrs):
    def __init__(self, filename, mode='r', clobber=True, diskless=False, persist=False, format='NETCDF4', **kw):
        d = self.__dict__
        d['_closed'] = False; d['_filename'] = str(filename); d['_mode'] = mode
        d['_attrs'] = collections.OrderedDict(); d['dimensions'] = collections.OrderedDict(); d['variables'] = collections.OrderedDict()
        if mode not in ('r','w','a','r+','ws','as','rs'): raise ValueError("mode must be 'w', 'r', 'a' or 'r+', got '%s'" % mode)
        if mode.startswith('w'):
            if format not in ('NETCDF4','NETCDF4_CLASSIC','NETCDF3_CLASSIC','NETCDF3_64BIT','NETCDF3_64BIT_OFFSET','NETCDF3_64BIT_DATA'): raise ValueError("unknown format %r" % format)
            if os.path.exists(self._filename) and not clobber: raise OSError("[Errno 17] NetCDF: File exists && NC_NOCLOBBER: %r" % self._filename)
            d['file_format'] = format; d['data_model'] = format
            self._dump()
        else:
            if not os.path.exists(self._filename): raise FileNotFoundError("[Errno 2] No such file or directory: %r" % self._filename)
            with open(self._filename, 'rb') as f: st = pickle.load(f)
            d['file_format'] = st['format']; d['data_model'] = st['format']
            d['_attrs'] = st['attrs']
            for n, (size, unl) in st['dims'].items():
                dim = Dimension(n, None if unl else size); dim._size = size; self.dimensions[n] = dim
            for n, v in st['vars'].items():
                var = Variable(self, n, str if v['isstr'] else v['dtype'], v['dims'])
                var.__dict__['_data'] = v['data']; var.__dict__['_mask'] = v['mask']; var.__dict__['_attrs'] = v['attrs']
                self.variables[n] = var
    def _root(self): return self
    def _need_write(self):
        if self._mode in ('r','rs'): raise RuntimeError("NetCDF: Write to read only")
    def __setattr__(self, name, value):
        if name in self.__dict__ or name.startswith('_'): self.__dict__[name] = value
        else: self.setncattr(name, value)
    def _dump(self):
        st = {'format': self.file_format, 'attrs': self._attrs,
              'dims': collections.OrderedDict((n, (len(dm), dm.isunlimited())) for n, dm in self.dimensions.items()),
              'vars': collections.OrderedDict()}
        for n, v in self.variables.items():
            v._sync_shape()
            st['vars'][n] = {'isstr': v._isstr, 'dtype': None if v._isstr else v.dtype.str, 'dims': v.dimensions, 'data': v._data, 'mask': v._mask, 'attrs': v._attrs}
        tmp = self._filename + '.tmp~'
        with open(tmp, 'wb') as f: pickle.dump(st, f, protocol=4)
        os.replace(tmp, self._filename)
    def _grow(self, dimname, newsize):
        dim = self.dimensions[dimname]
        if newsize > dim._size: dim._size = int(newsize)
        for v in self.variables.values(): v._sync_shape()
    def createDimension(self, name, size=None):
        self._check(); self._need_write()
        if name in self.dimensions: raise RuntimeError("NetCDF: String match to name in use")
        if size is None and self.file_format.startswith('NETCDF3') and any(d.isunlimited() for d in self.dimensions.values()):
            raise RuntimeError("NetCDF: NC_UNLIMITED size already in use")
        self.dimensions[name] = Dimension(name, size); return self.dimensions[name]
    def createVariable(self, varname, datatype, dimensions=(), fill_value=None, **kw):
        self._check(); self._need_write()
        if varname in self.variables: raise RuntimeError("NetCDF: String match to name in use")
        if isinstance(dimensions, str): dimensions = (dimensions,)
        v = Variable(self, varname, datatype, dimensions, fill_value=fill_value)
        self.variables[varname] = v; return v
    def renameVariable(self, oldname, newname):
        self._check(); self._need_write()
        v = self.variables[oldname]
        self.__dict__['variables'] = collections.OrderedDict((newname if k == oldname else k, x) for k, x in self.variables.items()); v.__dict__['_name'] = newname
    def renameDimension(self, oldname, newname):
        self._check(); self._need_write()
        dm = self.dimensions[oldname]; dm.name = newname
        self.__dict__['dimensions'] = collections.OrderedDict((newname if k == oldname else k, x) for k, x in self.dimensions.items())
        for v in self.variables.values(): v.__dict__['dimensions'] = tuple(newname if d == oldname else d for d in v.dimensions)
    def sync(self):
        self._check()
        if self._mode not in ('r','rs'): self._dump()
    def close(self):
        if self._closed: raise RuntimeError("NetCDF: Not a valid ID")
        if self._mode not in ('r','rs'): self._dump()
        self.__dict__['_closed'] = True
    def isopen(self): return not self._closed
    def __enter__(self): return self
    def __exit__(self, *a): self.close()
    def filepath(self): return self._filename
def default_fillvals(): return dict(_DEFAULT_FILL)
