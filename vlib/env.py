"""Interpreter / tree pinning shared by every check.

* the code under test is whatever lies under ${VERIF_REPO:-/repo} *now* (pure Python, nothing to build);
* the tree is put first on sys.path and we refuse to run (exit 2) if `import dimarray` resolves elsewhere;
* seed and tier come from VERIF_SEED / VERIF_TIER (command line wins);
* the hook guard DIMARRAY_VERIF is exported for completeness (no source hook exists, see MANIFEST.hooks).
"""
import os
import sys
import warnings

VERIF_DIR = os.path.dirname(os.path.dirname(os.path.abspath(__file__)))
REPO = os.path.abspath(os.environ.get("VERIF_REPO", "/repo"))
GUARD = "DIMARRAY_VERIF"

_imported = {}


def seed_from_env(default=1):
    try:
        return int(os.environ.get("VERIF_SEED", default))
    except ValueError:
        return default


def harness_error(msg):
    sys.stdout.flush()
    sys.stderr.write("HARNESS-ERROR: %s\n" % msg)
    sys.stderr.flush()
    os._exit(2)


def import_dimarray(fake_netcdf=False):
    """import the library from the tree under test; optionally with the netCDF4 stand-in"""
    if "da" in _imported:
        return _imported["da"]
    os.environ.setdefault(GUARD, "1")
    warnings.simplefilter("ignore")
    if fake_netcdf:
        sys.path.insert(0, os.path.join(VERIF_DIR, "vlib", "fake_netcdf4"))
    # drop any other copy of the package from the path, then put the tree under test first
    sys.path[:] = [p for p in sys.path if os.path.abspath(p or ".") != REPO]
    sys.path.insert(0, REPO)
    # silence the "Could not import netCDF4" print of dimarray/__init__.py
    import io
    import contextlib
    buf = io.StringIO()
    try:
        with contextlib.redirect_stdout(buf):
            import dimarray as da
    except Exception as e:  # the tree does not even import: harness error, not a violation
        harness_error("cannot import dimarray from %s: %r" % (REPO, e))
    where = os.path.abspath(da.__file__)
    if not where.startswith(REPO + os.sep):
        harness_error("dimarray imported from %s, expected under %s" % (where, REPO))
    if fake_netcdf and not getattr(da, "_ncio", False):
        harness_error("netCDF4 stand-in could not be imported by dimarray.io.nc: %s" % buf.getvalue())
    _imported["da"] = da
    return da
