"""Case descriptions -> live objects, the reference model, comparisons and the Violation type.

A *case* is a JSON-able description.  Arrays are described by a `spec`:

    {"dims": ["x", "y"], "labels": [[3, 1, 2], ["a", "b"]], "vk": "f", "base": 7, "nan": [0, 4]}

`vk` is the value kind: 'f' float (base + k + 0.5 ... injective, dyadic), 'i' int, 'b' bool,
's' str (object).  Values are *injective* (every cell differs) so that a cell that moves is seen.
`nan` lists flat (row-major) cell numbers that hold NaN (float only).
"""
import contextlib
import copy
import warnings
import hashlib
import json
import math
import os
import traceback

import numpy as np

from . import env


class _Null(object):
    """the library prints diagnostics on some error paths; keep them out of the checks' stdout"""
    def write(self, *a):
        return 0

    def flush(self):
        pass


_DEVNULL = _Null()


class Violation(Exception):
    """the library disagreed with the oracle (or raised where the property promises a result)"""

    def __init__(self, kind, detail=None, sig=None):
        Exception.__init__(self, kind)
        self.kind = kind
        self.detail = detail if detail is not None else {}
        self.sig = sig or {}

    def __str__(self):
        return "%s %s" % (self.kind, jsonable(self.detail))


class Raised(object):
    """returned by lib() when the call raised one of the expected exception types"""

    def __init__(self, exc):
        self.exc = exc
        self.type = type(exc).__name__

    def __repr__(self):
        return "Raised(%s)" % self.type


def innermost_lib_frame(exc):
    tb = traceback.extract_tb(exc.__traceback__)
    fr = [x for x in tb if (os.sep + "dimarray" + os.sep) in x.filename and not x.filename.startswith(env.VERIF_DIR)]
    if not fr:
        return None
    return "%s:%s:%d" % (os.path.basename(fr[-1].filename), fr[-1].name, fr[-1].lineno)


def lib(fn, expect=(), what=None, sig=None):
    """call into the library.  An exception of a type in `expect` is returned as Raised; any other
    exception is a Violation('exception') -- the property promised a result for this input."""
    try:
        with np.errstate(all="ignore"), contextlib.redirect_stdout(_DEVNULL):
            return fn()
    except Violation:
        raise
    except BaseException as e:  # noqa
        if isinstance(e, (KeyboardInterrupt, SystemExit, MemoryError)):
            raise
        if expect and isinstance(e, expect):
            return Raised(e)
        frame = innermost_lib_frame(e)
        s = {"exc": type(e).__name__, "frame": (frame or "").rsplit(":", 1)[0]}
        if sig:
            s.update(sig)
        raise Violation("exception", {"what": what, "type": type(e).__name__, "msg": str(e)[:200], "frame": frame}, sig=s)


def must_raise(fn, types, what, sig=None):
    """the property prescribes an exception of one of `types`"""
    try:
        with np.errstate(all="ignore"), contextlib.redirect_stdout(_DEVNULL):
            r = fn()
    except types as e:
        return e
    except Violation:
        raise
    except Exception as e:  # wrong type
        raise Violation("wrong-exception", {"what": what, "got": type(e).__name__, "msg": str(e)[:200],
                                            "expected": [t.__name__ for t in types], "frame": innermost_lib_frame(e)}, sig=sig)
    raise Violation("not-raised", {"what": what, "expected": [t.__name__ for t in types], "got": brief(r)}, sig=sig)


def check(cond, kind, detail=None, sig=None):
    if not cond:
        raise Violation(kind, detail, sig=sig)


# ----------------------------------------------------------------------------------------------
# JSON helpers
# ----------------------------------------------------------------------------------------------

def jsonable(x):
    if isinstance(x, dict):
        return {str(k): jsonable(v) for k, v in x.items()}
    if isinstance(x, (list, tuple, set, frozenset)):
        return [jsonable(v) for v in x]
    if isinstance(x, np.ndarray):
        return jsonable(x.tolist())
    if isinstance(x, (np.bool_,)):
        return bool(x)
    if isinstance(x, np.integer):
        return int(x)
    if isinstance(x, np.floating):
        x = float(x)
    if isinstance(x, float):
        if x != x:
            return "NaN"
        if x in (float("inf"), float("-inf")):
            return "inf" if x > 0 else "-inf"
        return x
    if isinstance(x, (int, str, bool)) or x is None:
        return x
    if isinstance(x, slice):
        return {"slice": [jsonable(x.start), jsonable(x.stop), jsonable(x.step)]}
    return repr(x)[:200]


def digest(case):
    return hashlib.sha1(json.dumps(jsonable(case), sort_keys=True).encode()).hexdigest()[:16]


def brief(x):
    try:
        if hasattr(x, "dims") and hasattr(x, "values"):
            return {"dims": list(x.dims), "labels": [jsonable(l) for l in x.labels], "values": jsonable(np.asarray(x.values))}
        return jsonable(x)
    except Exception:
        return repr(x)[:200]


# ----------------------------------------------------------------------------------------------
# building arrays from specs
# ----------------------------------------------------------------------------------------------

def label_array(labels):
    """ndarray for a list of labels: str -> object, any float -> float, else int"""
    labels = list(labels)
    if any(isinstance(l, str) for l in labels):
        return np.array(labels, dtype=object) if labels else np.array([], dtype=object)
    if any(isinstance(l, float) for l in labels):
        return np.array(labels, dtype=float)
    if any(isinstance(l, bool) for l in labels):
        return np.array(labels, dtype=bool)
    return np.array(labels, dtype=int)


def label_kind(labels):
    if any(isinstance(l, str) for l in labels):
        return "s"
    if any(isinstance(l, float) for l in labels):
        return "f"
    return "i"


STRVALS = ["v%02d" % i for i in range(400)]


def spec_values(spec):
    shape = tuple(len(l) for l in spec["labels"])
    n = int(np.prod(shape)) if shape else 1
    base = spec.get("base", 0)
    vk = spec.get("vk", "f")
    if vk == "f":
        v = (np.arange(n, dtype=float) + base) + 0.5
        for k in spec.get("nan", []):
            if n:
                v[k % n] = np.nan
    elif vk == "i":
        v = np.arange(n, dtype=int) + base
    elif vk == "b":
        v = ((np.arange(n) + base) % 3 == 0)
    elif vk == "s":
        v = np.array([STRVALS[(base + k) % len(STRVALS)] for k in range(n)], dtype=object)
    else:
        raise ValueError(vk)
    if "vals" in spec:  # explicit values (flat list) override the arithmetic pattern
        special = {"NaN": float("nan"), "inf": float("inf"), "-inf": float("-inf")}
        v = np.array([special[x] if isinstance(x, str) and x in special and vk == "f" else x for x in spec["vals"]], dtype={"f": float, "i": int, "b": bool, "s": object}[vk])
    if spec.get("dtype"):
        v = v.astype(spec["dtype"])      # a narrower type of the same kind (float32, int32, ...)
    return v.reshape(shape)


def warm(a, da=None):
    """cache-populating *queries* (public API only): a history that must not change any later answer"""
    da = da or env.import_dimarray()
    try:
        a.labels
        for d in a.dims:
            a.axes[d]                                                       # lookup by name
            getattr(a, d)                                                   # labels through attribute access
            for name in ("cumsum", "sum", "argmin"):                        # along-axis calls with the axis given by name
                try:
                    with np.errstate(all="ignore"), warnings.catch_warnings():
                        warnings.simplefilter("ignore")
                        getattr(a, name)(axis=d)
                except Exception:
                    pass
        for ax in a.axes:
            ax.is_monotonic()
            v = ax.values
            if len(v) and v.dtype.kind in "if":
                ax.loc(slice(v[0], v[-1]))                                      # label slice lookup
                ax.union(da.Axis(np.concatenate([v[::-1][:-1], [v.max() + 1]]), ax.name))   # the ordering query behind a + b / align
            elif len(v):
                ax.loc(v[0])
            ax.size
    except Exception:
        pass
    # method calls (reductions and transforms): whatever they may memoise on the instance must not matter later
    for name, kw in (("sum", {}), ("sum", {"axis": 0}), ("mean", {"axis": -1}), ("min", {}), ("max", {"axis": 0}), ("median", {}), ("std", {}),
                     ("var", {}), ("prod", {}), ("ptp", {}), ("any", {}), ("all", {}), ("cumsum", {}), ("argmin", {}), ("argmax", {})):
        try:
            with np.errstate(all="ignore"), warnings.catch_warnings():
                warnings.simplefilter("ignore")
                getattr(a, name)(**kw)
        except Exception:
            pass
    # non-in-place operations whose results are thrown away: transposing, reindexing, sorting, taking, interpolating, arithmetic
    # (whatever they remember on the array or on its axes - sorters, sorted copies, transposes - must not matter later)
    calls = [lambda: a.T, lambda: a + a, lambda: a.copy()]
    for i, ax in enumerate(a.axes):
        if ax.size:
            calls.append(lambda i=i, ax=ax: a.reindex_axis(ax.values[::-1].copy(), axis=i))
            calls.append(lambda i=i: a.sort_axis(axis=i))
            calls.append(lambda i=i: a.take_axis([0], axis=i, indexing="position"))
            if ax.values.dtype.kind in "if":
                calls.append(lambda i=i, ax=ax: a.interp_axis([float(ax.values[0])], axis=i))
    for f in calls:
        try:
            with np.errstate(all="ignore"), warnings.catch_warnings():
                warnings.simplefilter("ignore")
                f()
        except Exception:
            pass
    return a


def initial_labels(l):
    """other labels of the same kind and number, in the reverse order (so that whatever is remembered about their order is wrong afterwards)"""
    l = list(l)
    if any(isinstance(x, str) for x in l):
        return ["~" + x for x in l[::-1]]
    if any(isinstance(x, float) for x in l):
        return [float(x) + 0.5 for x in l[::-1]]
    return [int(x) + 7 for x in l[::-1]]


def build_initial(spec, da=None):
    """first half of a *re-used* object: an array of the wanted shape, dtype and dims that still carries OTHER labels (same kinds,
    reverse order) and other values; the caller uses it (queries, operations whose results are thrown away) and then calls finalise()"""
    da = da or env.import_dimarray()
    vals = spec_values(spec)
    dims, labels = list(spec["dims"]), [list(l) for l in spec["labels"]]
    if vals.dtype.kind in "iuf":
        v0 = (vals[tuple([slice(None, None, -1)] * vals.ndim)] + 1).astype(vals.dtype) if vals.ndim else np.array(vals + 1, dtype=vals.dtype)
        if vals.dtype.kind == "f":
            v0 = np.where(np.isnan(v0), 0.25, v0).astype(vals.dtype)        # (no NaN yet: the final values may bring some)
    else:
        v0 = np.array(vals, copy=True)
    return da.DimArray(np.array(v0, copy=True, order="C"), axes=[da.Axis(label_array(initial_labels(l)) if l else label_array(l), d) for l, d in zip(labels, dims)])


def finalise(a, spec):
    """second half: the labels are replaced IN PLACE through the public setter and the values are written into the array's own buffer;
    from here on the object must behave exactly like a freshly constructed array of that content"""
    vals = spec_values(spec)
    for d, l in zip(spec["dims"], spec["labels"]):
        if len(l):
            a.set_axis(label_array(l), axis=d)
    if a.values.dtype == vals.dtype and a.values.shape == vals.shape:
        a.values[...] = vals
    else:
        a.values = vals
    return a


def build(spec, da=None, attrs=None):
    """DimArray from a spec (always hands ndarrays and Axis objects to the constructor).

    spec["hist"] optionally asks for a *history-laden* array with the same final values, labels and dims
    (the reference models only look at those): {"mode": "warm"} queries after construction;
    {"mode": "slice", "front": [...], "back": [...]} a positional slice of a larger, warmed, unsorted parent (the
    values are then a non-contiguous view); {"mode": "relabel"} built with labels 0..n-1, warmed, then relabelled in
    place with set_axis; {"mode": "transposed"} the transpose of an array stored in reversed dimension order; {"mode": "fortran"}
    column-major storage; {"mode": "copyof"} a shallow copy of another, heavily used array that then received these values and axes
    through the public setters; {"mode": "renamed"} built under rotated dimension names, queried by name, then renamed in place;
    {"mode": "reused"} built with other labels of the same kinds (reverse order) and other values, used (warm: queries and non-in-place
    operations), then relabelled in place and overwritten in its own buffer."""
    da = da or env.import_dimarray()
    vals = spec_values(spec)
    dims, labels = list(spec["dims"]), [list(l) for l in spec["labels"]]
    hist = spec.get("hist") or {"mode": "none"}
    mode = hist.get("mode", "none")
    if not dims:
        mode = "none" if mode in ("slice", "relabel", "transposed", "fortran", "renamed", "reused") else mode
    if mode == "renamed" and len(dims) < 2:
        mode = "warm"
    if mode == "copyof" and vals.dtype not in (np.dtype(float), np.dtype(int), np.dtype(bool), np.dtype(object)):
        mode = "warm"       # (the values setter widens to the default types: a narrow dtype would not survive it)
    if mode == "slice":
        front = [list(f) for f in hist["front"]]
        back = [list(b) for b in hist["back"]]
        plabels = [f + l + b for f, l, b in zip(front, labels, back)]
        pshape = tuple(len(l) for l in plabels)
        if vals.dtype.kind == "O":
            pv = np.empty(pshape, dtype=object)
            pv[...] = "pad"
        elif vals.dtype.kind == "b":
            pv = np.zeros(pshape, dtype=bool)
        else:
            try:
                pv = np.full(pshape, -777, dtype=vals.dtype)
            except (OverflowError, ValueError):
                pv = np.full(pshape, 77, dtype=vals.dtype)      # (narrow or unsigned integer types)
        sl = tuple(slice(len(f), len(f) + len(l)) for f, l in zip(front, labels))
        pv[sl] = vals
        parent = da.DimArray(pv, axes=[da.Axis(label_array(l), d) for l, d in zip(plabels, dims)])
        warm(parent, da)
        a = parent.take(sl, indexing="position")      # (not .ix: it toggles under indexing.by='position')
    elif mode == "relabel":
        shuffled = hist.get("init") == "shuffled"       # queried while unordered (n >= 3), then relabelled: a cached "not monotonic" must not survive
        a = da.DimArray(vals, axes=[da.Axis(np.roll(np.arange(len(l)), 1) if shuffled else np.arange(len(l)), d) for l, d in zip(labels, dims)])
        warm(a, da)
        for d, l in zip(dims, labels):
            if len(l):
                if hist.get("via") == "values-setter-ndarray":
                    a.axes[d].values = np.array(l)          # (a plain ndarray: strings arrive as a fixed-width string array)
                elif hist.get("via") == "values-setter-list":
                    a.axes[d].values = list(l)
                else:
                    a.set_axis(label_array(l), axis=d)
    elif mode == "reused":
        # an object that was used before under other labels (same kinds) and other values, then relabelled and overwritten in place
        a = build_initial(spec, da)
        warm(a, da)
        finalise(a, spec)
        if a.values.dtype != vals.dtype:
            raise Violation("history-build-changed-dtype", {"what": "values written into the buffer of a re-used array", "got": str(a.values.dtype), "expected": str(vals.dtype)}, sig={"op": "build"})
    elif mode == "fortran":
        a = da.DimArray(np.asfortranarray(vals), axes=[da.Axis(label_array(l), d) for l, d in zip(labels, dims)])   # column-major storage
        warm(a, da)
    elif mode == "copyof":
        # a shallow copy of a heavily used *other* array (other labels, other values), then given its values and axes through the setters
        if vals.dtype.kind == "f":
            ov = np.arange(vals.size, dtype=int).reshape(vals.shape) + 500      # int -> the values setter casts and allocates
        elif vals.dtype.kind == "O":
            ov = np.empty(vals.shape, dtype=object)
            ov[...] = "other"
        else:
            ov = np.zeros(vals.shape, dtype=vals.dtype)
        other = da.DimArray(ov, axes=[da.Axis(np.arange(len(l)) + 1000, d) for l, d in zip(labels, dims)])
        warm(other, da)
        a = other.copy(shallow=True)
        a.values = vals
        a.axes = [da.Axis(label_array(l), d) for l, d in zip(labels, dims)]
        if a.values.dtype != vals.dtype:
            # the public values setter widens as documented (int <- float gives float64): anything else is the library's doing
            raise Violation("history-build-changed-dtype", {"what": "b = other.copy(shallow=True); b.values = <%s data> on %s data" % (vals.dtype, ov.dtype),
                                                            "got": str(a.values.dtype), "expected": str(vals.dtype)}, sig={"op": "build"})
    elif mode == "renamed":
        # built under rotated dimension names, queried BY NAME, then renamed in place: whatever was remembered per name must not survive
        rot = dims[1:] + dims[:1]
        a = da.DimArray(vals, axes=[da.Axis(label_array(l), d) for l, d in zip(labels, rot)])
        warm(a, da)
        # (through temporary names: DimArray's dims setter renames one name after the other BY NAME, so names that are both old and new
        # would collide - see DESIGN.md 10.3, observation O1)
        tmp = ["tmp_%d" % i for i in range(len(dims))]
        if hist.get("via") == "axis-names":
            for ax, t in zip(a.axes, tmp):
                ax.name = t
            for ax, d in zip(a.axes, dims):
                ax.name = d
        else:
            a.dims = tuple(tmp)
            a.dims = tuple(dims)
    elif mode == "transposed":
        parent = da.DimArray(np.ascontiguousarray(vals.transpose()), axes=[da.Axis(label_array(l), d) for l, d in zip(labels[::-1], dims[::-1])])
        warm(parent, da)
        a = parent.transpose(*dims)
    else:
        a = da.DimArray(vals, axes=[da.Axis(label_array(l), d) for l, d in zip(labels, dims)])
        if mode == "warm":
            warm(a, da)
    if mode != "none":
        # a history must never change what the array *is*: guard the harness itself
        if tuple(a.dims) != tuple(dims) or a.values.shape != vals.shape:
            raise Violation("history-build-changed-shape", {"what": "history mode %s" % mode, "got_dims": list(a.dims), "got_shape": list(a.values.shape),
                                                            "expected_dims": list(dims), "expected_shape": list(vals.shape)}, sig={"op": "build"})
    for k in list(a.attrs.keys()):
        del a.attrs[k]
    if spec.get("attrs"):
        a.attrs.update(copy.deepcopy(spec["attrs"]))
    if spec.get("axattrs"):
        for d, at in spec["axattrs"].items():
            if d in a.dims:
                a.axes[d].attrs.update(copy.deepcopy(at))
    if attrs:
        a.attrs.update(copy.deepcopy(attrs))
    return a


# ----------------------------------------------------------------------------------------------
# reference model: labelled array as {coordinate tuple -> scalar}
# ----------------------------------------------------------------------------------------------

def pyscalar(x):
    if isinstance(x, np.generic):
        return x.item()
    if isinstance(x, np.ndarray) and x.ndim == 0:
        return x.item()
    return x


def snap_to_nodes(points, nodes, rel=1e-12):
    """interpolation points that lie within a few ulp of a node - without being it - are moved onto the node: there the fraction
    of the way to the next node is below the resolution of floating point, and whether it survives depends on the order of the
    arithmetic (next to a NaN / infinite node that decides between the node's value and NaN / inf); no statement goes that far"""
    out = []
    for x in points:
        y = x
        if isinstance(x, float) or isinstance(x, int):
            for l in nodes:
                if isinstance(l, (int, float)) and l != x and abs(x - l) <= rel * max(1.0, abs(l)):
                    y = type(x)(l) if float(l) == type(x)(l) else float(l)
                    break
        out.append(y)
    return out


def canon_label(l):
    """labels compare by value: 2 == 2.0; returned as hashable python scalars"""
    l = pyscalar(l)
    if isinstance(l, tuple):
        return tuple(canon_label(x) for x in l)
    if isinstance(l, float) and l == int(l) and not math.isinf(l):
        return int(l)
    return l


class L(object):
    """labelled array model: dims (tuple of names), labels (list of lists), cells {coord: value}"""

    def __init__(self, dims, labels, cells):
        self.dims = tuple(dims)
        self.labels = [list(l) for l in labels]
        self.cells = cells

    @property
    def shape(self):
        return tuple(len(l) for l in self.labels)

    def coords(self):
        import itertools
        return itertools.product(*[[canon_label(x) for x in l] for l in self.labels])

    def get(self, coord_by_dim):
        return self.cells[tuple(canon_label(coord_by_dim[d]) for d in self.dims)]

    def has(self, coord_by_dim):
        return tuple(canon_label(coord_by_dim[d]) for d in self.dims) in self.cells


def model_of(a):
    """read a DimArray (or anything with dims/labels/values) into the model -- plain attribute
    access and positional iteration only, no library indexing"""
    import itertools
    dims = tuple(a.dims)
    labels = [[pyscalar(x) for x in np.asarray(l, dtype=object).tolist()] if not isinstance(l, list) else l for l in a.labels]
    vals = np.asarray(a.values)
    cells = {}
    canon = [[canon_label(x) for x in l] for l in labels]
    for idx in itertools.product(*[range(len(l)) for l in labels]):
        cells[tuple(canon[i][k] for i, k in enumerate(idx))] = pyscalar(vals[idx])
    return L(dims, labels, cells)


def model_of_spec(spec):
    class _A(object):
        pass
    o = _A()
    o.dims = tuple(spec["dims"])
    o.labels = [list(l) for l in spec["labels"]]
    o.values = spec_values(spec)
    return model_of(o)


def isnan(x):
    return isinstance(x, float) and x != x


def same_scalar(x, y, tol=False):
    x = pyscalar(x)
    y = pyscalar(y)
    if isnan(x) or isnan(y):
        return isnan(x) and isnan(y)
    if tol and isinstance(x, (int, float)) and isinstance(y, (int, float)) and not isinstance(x, bool):
        if math.isinf(x) or math.isinf(y):
            return x == y
        return abs(x - y) <= 1e-12 + 1e-12 * max(abs(x), abs(y))
    try:
        return bool(x == y)
    except Exception:
        return False


def same_labels(got, exp):
    """exact comparison of two label vectors (value equality, 2 == 2.0), order included"""
    g = [canon_label(x) for x in (got.tolist() if isinstance(got, np.ndarray) else list(got))]
    e = [canon_label(x) for x in (exp.tolist() if isinstance(exp, np.ndarray) else list(exp))]
    return g == e


def _pykind(labels):
    ts = set(type(pyscalar(x)) for x in labels)
    if ts == {int}:
        return "i"
    if ts == {float}:
        return "f"
    if ts == {str}:
        return "s"
    return None


def expect_array(res, dims, labels, valfun, what, tol=False, sig=None, da=None, label_kinds=True):
    """`res` must be a DimArray with exactly these dims and labels and valfun(coord dict) at every
    coordinate.  valfun receives {dim: label}."""
    da = da or env.import_dimarray()
    check(isinstance(res, da.DimArray), "not-a-dimarray", {"what": what, "got": brief(res)}, sig)
    check(tuple(res.dims) == tuple(dims), "dims", {"what": what, "got": list(res.dims), "expected": list(dims)}, sig)
    check(res.values.ndim == len(dims) and len(res.axes) == len(dims), "ndim", {"what": what}, sig)
    # looking an axis up by name and by position must give the same object, in whatever order the names are asked for
    for i, d in list(enumerate(dims))[::-1]:
        check(res.axes[d] is res.axes[i], "axis-by-name-differs-from-axis-by-position", {"what": what, "dim": d, "by_name": res.axes[d].name}, sig)
    for i, d in enumerate(dims):
        check(same_labels(res.axes[i].values, labels[i]), "labels",
              {"what": what, "dim": d, "got": jsonable(res.axes[i].values), "expected": jsonable(labels[i])}, sig)
        check(res.axes[d] is res.axes[i], "axis-by-name-differs-from-axis-by-position", {"what": what, "dim": d, "by_name": res.axes[d].name}, sig)
        # labels are compared by value above (2 == 2.0); their kind counts too: integer labels do not come back as floats or strings
        ek = _pykind(labels[i]) if label_kinds and len(labels[i]) else None
        if ek is not None:
            gk = res.axes[i].values.dtype.kind
            gk = "i" if gk in "iu" else ("s" if gk in "OUS" else gk)
            check(gk == ek, "label-kind", {"what": what, "dim": d, "got_dtype": str(res.axes[i].values.dtype), "expected_kind": ek, "labels": jsonable(labels[i])}, sig)
    check(tuple(res.values.shape) == tuple(len(l) for l in labels), "shape",
          {"what": what, "got": list(res.values.shape), "expected": [len(l) for l in labels]}, sig)
    import itertools
    vals = res.values
    for idx in itertools.product(*[range(len(l)) for l in labels]):
        coord = {d: labels[i][k] for i, (d, k) in enumerate(zip(dims, idx))}
        exp = valfun(coord)
        got = vals[idx]
        if not same_scalar(got, exp, tol=tol):
            raise Violation("value", {"what": what, "coord": jsonable(coord), "got": jsonable(got), "expected": jsonable(exp),
                                      "result": brief(res)}, sig=sig)


def expect_equal_arrays(a, b, what, tol=False, sig=None, check_attrs=False):
    """two DimArrays with identical dims, labels (order included) and values"""
    check(tuple(a.dims) == tuple(b.dims), "dims", {"what": what, "got": list(a.dims), "expected": list(b.dims)}, sig)
    for i, d in enumerate(a.dims):
        check(same_labels(a.axes[i].values, b.axes[i].values), "labels",
              {"what": what, "dim": d, "got": jsonable(a.axes[i].values), "expected": jsonable(b.axes[i].values)}, sig)
    check(a.values.shape == b.values.shape, "shape", {"what": what}, sig)
    av = np.asarray(a.values, dtype=object).ravel().tolist()
    bv = np.asarray(b.values, dtype=object).ravel().tolist()
    for k, (x, y) in enumerate(zip(av, bv)):
        if not same_scalar(x, y, tol=tol):
            raise Violation("value", {"what": what, "flat": k, "got": jsonable(x), "expected": jsonable(y),
                                      "a": brief(a), "b": brief(b)}, sig=sig)
    if check_attrs:
        check(attrs_equal(a.attrs, b.attrs), "attrs", {"what": what, "got": jsonable(a.attrs), "expected": jsonable(b.attrs)}, sig)


def attrs_equal(x, y):
    try:
        return json.dumps(jsonable(x), sort_keys=True) == json.dumps(jsonable(y), sort_keys=True)
    except Exception:
        return False


# ----------------------------------------------------------------------------------------------
# snapshots (operand immutability)
# ----------------------------------------------------------------------------------------------

def snapshot(a):
    v = np.asarray(a.values)
    return {
        "values": repr(v.tolist()) if v.dtype.kind == "O" else v.tobytes(),
        "dtype": str(v.dtype),
        "shape": tuple(v.shape),
        "dims": tuple(a.dims),
        "labels": [(np.asarray(l, dtype=object).tolist(), str(np.asarray(l).dtype)) for l in a.labels],
        "axattrs": [copy.deepcopy(dict(ax.attrs)) for ax in a.axes],
        "attrs": copy.deepcopy(dict(a.attrs)),
    }


def snapshot_diff(s1, s2):
    out = []
    for k in s1:
        same = s1[k] == s2[k]
        if k == "labels" and not same:
            # NaN-free by construction; direct comparison is fine
            pass
        if not same:
            out.append(k)
    return out


def expect_unchanged(a, snap, what, sig=None):
    d = snapshot_diff(snap, snapshot(a))
    if d:
        raise Violation("operand-modified", {"what": what, "changed": d, "now": brief(a)}, sig=sig)


# ----------------------------------------------------------------------------------------------
# options
# ----------------------------------------------------------------------------------------------

class options(object):
    """set global dimarray options for the duration of a case and restore them whatever happens"""

    def __init__(self, **kw):
        self.kw = {k.replace("_", "."): v for k, v in kw.items()}

    def __enter__(self):
        da = env.import_dimarray()
        self.saved = dict(da.rcParams)
        for k, v in self.kw.items():
            da.set_option(k, v)
        return self

    def __exit__(self, *a):
        da = env.import_dimarray()
        da.rcParams.clear()
        da.rcParams.update(self.saved)
        return False


# ----------------------------------------------------------------------------------------------
# datasets
# ----------------------------------------------------------------------------------------------

def build_dataset(dspec, da=None):
    """Dataset from {"vars": [[name, spec], ...], "attrs": {...}} -- variables are inserted one by one"""
    da = da or env.import_dimarray()
    ds = da.Dataset()
    for name, spec in dspec["vars"]:
        ds[name] = build(spec)
    if dspec.get("attrs"):
        ds.attrs.update(copy.deepcopy(dspec["attrs"]))
    return ds


def snapshot_dataset(ds):
    return {"keys": list(ds.keys()), "dims": tuple(ds.dims), "labels": [np.asarray(l, dtype=object).tolist() for l in ds.labels],
            "attrs": copy.deepcopy(dict(ds.attrs)), "vars": {k: snapshot(ds[k]) for k in ds.keys()}}


def check_shared_axes(ds, what, sig=None):
    """C13's invariant: every variable's axis object is the dataset's; dataset dims = union of variable dims"""
    used = []
    for k in ds.keys():
        v = ds[k]
        for d in v.dims:
            check(d in ds.dims, "variable-dim-not-in-dataset", {"what": what, "var": k, "dim": d, "ds_dims": list(ds.dims)}, sig)
            check(v.axes[d] is ds.axes[d], "axis-not-shared", {"what": what, "var": k, "dim": d}, sig)
            if d not in used:
                used.append(d)
        check(len(v.axes) == v.values.ndim and tuple(ax.size for ax in v.axes) == v.values.shape, "variable-malformed", {"what": what, "var": k}, sig)
    return used
