"""Catalogue of public non-in-place operations (used by C15: operands are not modified; C16: metadata
propagation).  Every entry: (name, attrs_rule, axis_attrs_dims, fn)

  attrs_rule      "keeps" | "drops" | None        what the statement of C16 says about array-level metadata
  axis_attrs      list of dims (callable on ctx) whose axis metadata must survive in the result, or None
  fn(ctx)         performs the call; ctx.a is the main operand (>= 2 dims, first axis numeric, unsorted labels,
                  metadata), ctx.b a second array sharing some dimensions, ctx.k a small integer

The argument forms mirror the generators of C01-C14 / C17 / C18.
"""
import numpy as np


def _freeze(x):
    """comparable deep image of an argument object (ndarray, DimArray, Axis, Axes, list, dict, scalar)"""
    if isinstance(x, np.ndarray):
        return ("nd", str(x.dtype), x.shape, repr(x.tolist()))
    if isinstance(x, dict) and hasattr(x, "axes"):      # a Dataset
        return ("ds", tuple((repr(k), _freeze(v)) for k, v in x.items()), tuple(_freeze(ax) for ax in x.axes), repr(sorted(dict(x.attrs).items(), key=str)))
    if hasattr(x, "axes") and hasattr(x, "values") and hasattr(x, "dims"):
        return ("da", _freeze(np.asarray(x.values)), tuple(x.dims), tuple(_freeze(ax) for ax in x.axes), repr(sorted(dict(x.attrs).items(), key=str)))
    if hasattr(x, "values") and hasattr(x, "name"):
        return ("axis", x.name, _freeze(np.asarray(x.values)), repr(sorted(dict(x.attrs).items(), key=str)))
    if isinstance(x, dict):
        return ("dict", tuple((repr(k), _freeze(v)) for k, v in x.items()))
    if isinstance(x, (list, tuple)) or type(x).__name__ == "Axes":
        return (type(x).__name__, tuple(_freeze(v) for v in x))
    return ("scalar", repr(x))


class Ctx(object):
    def __init__(self, da, a, b, k, f=None):
        self.da, self.a, self.b, self.k = da, a, b, k
        self.f = f if f is not None else a.flatten(a.dims[:2], insert=0)   # grouped axis whose members are a's Axis objects
        self._args = []

    def arg(self, x):
        """register a secondary argument (mask, label array, Axis, template...): it must come back unchanged (C15)"""
        self._args.append((x, _freeze(x)))
        return x

    def changed_args(self):
        out = [type(x).__name__ for x, f in self._args if _freeze(x) != f]
        self._args = []
        return out

    def lab(self, d, j=0):
        l = self.a.axes[d].values
        return l[(self.k + j) % len(l)]

    @property
    def last(self):
        return self.a.dims[-1]

    @property
    def first(self):
        return self.a.dims[0]

    def axk(self):
        return self.k % self.a.ndim

    def shifted_first(self):
        """a metadata-free array over a's first dimension with a's labels except the first one (plus a foreign one): aligning with it re-indexes a"""
        labs = self.a.labels[0]
        extra = [labs.max() + 1] if labs.dtype.kind in "if" else ["zzz"]
        new = np.array(list(labs[1:]) + extra, dtype=labs.dtype if labs.dtype.kind in "if" else object)
        return self.da.DimArray(np.arange(len(new), dtype=float), axes=[self.da.Axis(new, self.a.dims[0])])

    def meta_like(self, x):
        """x with a's array-level metadata (for operations on derived arrays of another data kind)"""
        import copy as _c
        x.attrs.update(_c.deepcopy(dict(self.a.attrs)))
        return x


def _interp_pts(c):
    v = c.a.axes[0].values
    return [float(np.mean(v)), float(np.min(v)) - 1, float(v[0])]


def _mask_first(c):
    m = np.zeros(c.a.shape[0], dtype=bool)
    m[c.k % c.a.shape[0]] = True
    return m


def _ds_with_lacking(c):
    """dataset-wide along-axis operations (axis by default, by position, by name) on a dataset one of whose variables lacks the
    axis and is as long as the new label list"""
    lack = c.da.DimArray(np.array([1.5, 2.5]), axes=[c.da.Axis(np.array(["u", "v"], dtype=object), "zzlack")])
    lack.attrs.update({"units": "l", "lst": [1]})
    lack = c.arg(lack)
    ds = c.da.Dataset()
    ds["a"] = c.a
    ds["lack"] = lack
    c.arg(ds)
    new = [c.lab(0), c.a.labels[0].max() + 50]
    return (ds.reindex_axis(new), ds.reindex_axis(list(new), axis=0), ds.reindex_axis(list(new), axis=c.first), ds.take_axis([0, 0], axis=0, indexing="position"),
            ds.sort_axis(0), ds.interp_axis([float(c.a.labels[0].min()), float(c.a.labels[0].max()) + 1.0], axis=0), ds.mean(axis=0),
            ds.reduce_axis(np.mean, axis=c.first), ds.reduce_axis(np.max, axis=0, keepattrs=True))


CATALOGUE = [
    # ---- indexing -----------------------------------------------------------------------------------------------
    ("getitem scalar", "keeps", None, lambda c: c.a[c.lab(0)]),
    ("getitem list last dim", "keeps", lambda c: [c.last], lambda c: c.a.take([c.lab(c.last), c.lab(c.last, 1)], axis=c.last)),
    ("getitem tuple", "keeps", lambda c: [c.first], lambda c: c.a[[c.lab(0)], c.lab(1)]),
    ("getitem label slice", "keeps", lambda c: [c.first], lambda c: c.a.take(slice(c.lab(0), None), axis=0)),
    ("getitem mask 1-d", "keeps", lambda c: [c.first], lambda c: c.a[c.arg(_mask_first(c))]),
    ("take dict", "keeps", None, lambda c: c.a.take(c.arg({c.last: c.lab(c.last)}))),
    ("loc", "keeps", None, lambda c: c.a.loc[c.lab(0)]),
    ("sel", "keeps", None, lambda c: c.a.sel(**{c.first: c.lab(0)})),
    ("ix", "keeps", None, lambda c: c.a.ix[c.k % c.a.shape[0]]),
    ("ix slice", "keeps", lambda c: [c.first], lambda c: c.a.ix[::-1]),
    ("iloc list", "keeps", lambda c: [c.first], lambda c: c.a.iloc[[0, c.k % c.a.shape[0]]]),
    ("isel", "keeps", None, lambda c: c.a.isel(**{c.last: 0})),
    ("nloc", "keeps", None, lambda c: c.a.nloc[float(c.a.axes[0].values[0]) + 0.1]),
    ("take keepdims", "keeps", None, lambda c: c.a.take(c.lab(0), axis=0, keepdims=True)),
    ("getitem N-d mask", "keeps", None, lambda c: c.a[c.arg(c.a.values > np.nanmean(c.a.values))]),
    ("getitem N-d DimArray mask", "keeps", None, lambda c: c.a[c.arg(c.a > np.nanmean(c.a.values))]),
    ("compress", "keeps", None, lambda c: c.a.compress(c.arg(c.a.values > np.nanmean(c.a.values)))),
    # an index that selects everything is still an index
    ("getitem [:]", "keeps", lambda c: list(c.a.dims), lambda c: c.a[:]),
    ("getitem [...]", "keeps", lambda c: list(c.a.dims), lambda c: c.a[...]),
    ("getitem all full slices", "keeps", lambda c: list(c.a.dims), lambda c: c.a[tuple(slice(None) for _ in c.a.dims)]),
    ("take full slice", "keeps", lambda c: list(c.a.dims), lambda c: c.a.take(slice(None), axis=c.last)),
    ("ix [:]", "keeps", lambda c: list(c.a.dims), lambda c: c.a.ix[:]),
    ("take_axis label", "keeps", lambda c: list(c.a.dims), lambda c: c.a.take_axis(c.arg([c.lab(0), c.lab(0, 1)]), axis=0)),
    ("take_axis position", "keeps", lambda c: list(c.a.dims), lambda c: c.a.take_axis(c.arg(np.array([c.k % c.a.shape[0], 0])), axis=0, indexing="position")),
    ("compress_axis", "keeps", lambda c: list(c.a.dims), lambda c: c.a.compress_axis(c.arg(_mask_first(c)), axis=0)),
    ("iter", None, None, lambda c: list(c.a.iter(0))),
    ("to_list", None, None, lambda c: c.a.to_list()),
    # ---- assignment on a copy -----------------------------------------------------------------------------------
    ("put inplace=False", None, None, lambda c: c.a.put(c.lab(0), -1.0, inplace=False)),
    ("put cast inplace=False", None, None, lambda c: c.a.put(c.lab(0), "x", inplace=False, cast=True)),
    ("put mask inplace=False", None, None, lambda c: c.a.put(c.arg(c.a.values > np.nanmean(c.a.values)), 0.0, inplace=False)),
    ("fillna", None, None, lambda c: c.a.fillna(0.0)),
    ("setna", None, None, lambda c: c.a.setna(c.a.values.ravel()[0])),
    ("setna value, na (positional)", None, None, lambda c: c.a.setna(c.a.values.ravel()[0], -1)),
    ("setna list", None, None, lambda c: c.a.setna(c.arg([c.a.values.ravel()[0], c.a.values.ravel()[-1]]))),
    ("setna DimArray mask, value", None, None, lambda c: c.a.setna([c.arg(c.a > np.nanmean(c.a.values)), c.a.values.ravel()[0]])),
    ("setna value, ndarray mask, list", None, None, lambda c: c.a.setna((c.arg(c.a.values > np.nanmean(c.a.values)), c.a.values.ravel()[0], [c.a.values.ravel()[-1]]))),
    ("setna mask", None, None, lambda c: c.a.setna(c.arg(c.a.values > np.nanmean(c.a.values)))),
    ("fillna inplace=False", None, None, lambda c: c.a.fillna(-1, inplace=False)),
    ("set_axis copy", None, None, lambda c: c.a.set_axis(np.arange(c.a.shape[0]) + 100, axis=0, inplace=False)),
    ("set_axis name copy", None, None, lambda c: c.a.set_axis(name="renamed", axis=0, inplace=False)),
    # ---- arithmetic / comparisons -------------------------------------------------------------------------------
    ("a+b", "drops", None, lambda c: c.a + c.b),
    ("b-a", "drops", None, lambda c: c.b - c.a),
    ("a*b", "drops", None, lambda c: c.a * c.b),
    ("a/b", "drops", None, lambda c: c.a / c.b),
    ("a*2", "drops", None, lambda c: c.a * 2),
    ("2-a", "drops", None, lambda c: 2 - c.a),
    ("2/a", "drops", None, lambda c: 2 / c.a),
    ("a**2", "drops", None, lambda c: c.a ** 2),
    # (operands that leave the values as they are: the result is still an arithmetic result)
    ("0+a", "drops", None, lambda c: 0 + c.a),
    ("a+0, a-0", "drops", None, lambda c: (c.a + 0) - 0),
    ("1*a", "drops", None, lambda c: 1 * c.a),
    ("a*1, a/1", "drops", None, lambda c: (c.a * 1) / 1),
    ("a**1", "drops", None, lambda c: c.a ** 1),
    ("builtin sum([a])", "drops", None, lambda c: sum([c.a])),
    ("builtin sum([a, a])", "drops", None, lambda c: sum([c.a, c.a])),
    ("a+0.0", "drops", None, lambda c: c.a + 0.0),
    ("a+ndarray", "drops", None, lambda c: c.a + c.arg(np.ones(c.a.shape))),
    ("-a", "drops", None, lambda c: -c.a),
    ("+a", "drops", None, lambda c: +c.a),
    # unary plus of boolean / string data that carry metadata (NumPy refuses these types; if an answer is given, it is an arithmetic result)
    ("+(boolean array with metadata)", "drops", None, lambda c: +c.meta_like(c.a > np.nanmean(np.asarray(c.a.values, dtype=float)))),
    ("+(string array with metadata)", "drops", None, lambda c: +c.meta_like(c.da.DimArray(np.asarray(c.a.values, dtype=str).astype(object), axes=[ax.copy() for ax in c.a.axes]))),
    ("a>1", "drops", None, lambda c: c.a > 1),
    ("a<=a", "drops", None, lambda c: c.a <= c.a),
    ("a==a", "drops", None, lambda c: c.a == c.a),
    ("a!=b", "drops", None, lambda c: c.a != c.b),
    ("a==scalar", "drops", None, lambda c: c.a == 1.5),
    # boolean arrays produced by earlier comparisons, combined with the logical operators (both masks are arguments of the call)
    ("mask & mask", None, None, lambda c: c.arg(c.a > np.nanmin(c.a.values)) & c.arg(c.a < np.nanmax(c.a.values))),
    ("mask | mask", None, None, lambda c: c.arg(c.a <= np.nanmin(c.a.values)) | c.arg(c.a >= np.nanmax(c.a.values))),
    ("~mask", None, None, lambda c: ~c.arg(c.a > np.nanmin(c.a.values))),
    ("mask & ndarray", None, None, lambda c: c.arg(c.a > np.nanmin(c.a.values)) & c.arg(c.a.values < np.nanmax(c.a.values))),
    ("apply", None, None, lambda c: c.a.apply(np.abs)),
    ("np.sin", None, None, lambda c: np.sin(c.a)),
    # ---- reductions ---------------------------------------------------------------------------------------------
    ("sum axis", "keeps", None, lambda c: c.a.sum(axis=c.axk())),
    ("prod name", "keeps", None, lambda c: c.a.prod(axis=c.a.dims[c.axk()])),
    ("mean skipna", "keeps", None, lambda c: c.a.mean(axis=c.a.dims[c.axk()], skipna=True)),
    ("std", "keeps", None, lambda c: c.a.std(axis=0)),
    ("var skipna", "keeps", None, lambda c: c.a.var(axis=-1, skipna=True)),
    ("min", "keeps", None, lambda c: c.a.min(axis=c.axk())),
    ("max skipna", "keeps", None, lambda c: c.a.max(axis=c.axk(), skipna=True)),
    ("ptp", "keeps", None, lambda c: c.a.ptp(axis=0)),
    ("median", "keeps", None, lambda c: c.a.median(axis=c.axk())),
    ("all", "keeps", None, lambda c: c.a.all(axis=0)),
    ("any skipna", "keeps", None, lambda c: c.a.any(axis=0, skipna=True)),
    ("sum tuple", "keeps", None, lambda c: c.a.sum(axis=tuple(c.a.dims[::-1][:2])) if c.a.ndim > 2 else c.a.newaxis("n_").sum(axis=tuple(c.a.dims[::-1][:2]))),
    ("median tuple stored order", "keeps", None, lambda c: c.a.median(axis=tuple(c.a.dims[:2])) if c.a.ndim > 2 else c.a.newaxis("n_", pos=c.a.ndim).median(axis=tuple(c.a.dims[:2]))),
    ("median tuple last two", "keeps", None, lambda c: c.a.median(axis=tuple(c.a.dims[-2:])) if c.a.ndim > 2 else c.a.newaxis("n_").median(axis=tuple(c.a.dims[-2:]))),
    ("mean list of positions", "keeps", None, lambda c: c.a.mean(axis=[0, 1]) if c.a.ndim > 2 else c.a.newaxis("n_", pos=c.a.ndim).mean(axis=[0, 1])),
    ("max tuple skipna", "keeps", None, lambda c: c.a.max(axis=tuple(c.a.dims[:2]), skipna=True) if c.a.ndim > 2 else c.a.newaxis("n_", pos=c.a.ndim).max(axis=tuple(c.a.dims[:2]), skipna=True)),
    ("median all dims tuple", None, None, lambda c: c.a.median(axis=tuple(c.a.dims))),
    ("median None", None, None, lambda c: c.a.median()),
    ("sum None", None, None, lambda c: c.a.sum()),
    ("percentile", None, None, lambda c: c.da.percentile(c.a, c.arg([10, 50]), axis=c.axk())),
    ("percentile scalar", None, None, lambda c: c.da.percentile(c.a, 50, axis=c.a.dims[c.axk()])),
    # ---- along-axis transforms ----------------------------------------------------------------------------------
    ("cumsum", "keeps", None, lambda c: c.a.cumsum(axis=c.axk())),
    ("cumprod", "keeps", None, lambda c: c.a.cumprod()),
    ("diff", "keeps", None, lambda c: c.a.diff(axis=c.axk())),
    ("diff forward keepaxis", "keeps", None, lambda c: c.a.diff(axis=c.axk(), keepaxis=True, scheme="forward")),
    ("diff centered", "keeps", None, lambda c: c.a.diff(axis=0, scheme="centered")),
    ("diff n=2", "keeps", None, lambda c: c.a.diff(axis=c.a.dims[c.axk()], n=2)),
    ("argmin", None, None, lambda c: c.a.argmin()),
    ("argmax axis", "keeps", None, lambda c: c.a.argmax(axis=c.axk())),
    ("argmin axis name", "keeps", None, lambda c: c.a.argmin(axis=c.a.dims[c.axk()])),
    ("argmin skipna", "keeps", None, lambda c: c.a.argmin(axis=0, skipna=True)),
    # ---- reshaping ----------------------------------------------------------------------------------------------
    ("transpose", "keeps", lambda c: list(c.a.dims), lambda c: c.a.transpose(*c.a.dims[::-1])),
    ("T", "keeps", None, lambda c: c.a.T if c.a.ndim == 2 else c.a.ix[0].T if c.a.ndim == 3 else c.a.T),
    ("swapaxes", "keeps", lambda c: list(c.a.dims), lambda c: c.a.swapaxes(0, c.a.ndim - 1)),
    ("rollaxis", "keeps", lambda c: list(c.a.dims), lambda c: c.a.rollaxis(c.a.ndim - 1)),
    ("newaxis", "keeps", lambda c: list(c.a.dims), lambda c: c.a.newaxis("new", pos=c.k % (c.a.ndim + 1))),
    ("newaxis values", "keeps", lambda c: list(c.a.dims), lambda c: c.a.newaxis("new", values=c.arg(np.array([1, 2])), pos=c.k % (c.a.ndim + 1))),
    ("newaxis values Axis of another array", "keeps", lambda c: list(c.a.dims),
     lambda c: c.a.newaxis("new", values=c.arg(c.b.axes[c.k % c.b.ndim]), pos=c.k % (c.a.ndim + 1))),
    ("repeat Axis of another array", "keeps", None, lambda c: c.a.take([c.lab(0)], axis=0).repeat(c.arg(c.b.axes[c.k % c.b.ndim]), axis=0)),
    ("squeeze", "keeps", None, lambda c: c.a.take([c.lab(0)], axis=0).squeeze()),
    ("repeat", "keeps", None, lambda c: c.a.take([c.lab(0)], axis=0).repeat(c.arg(np.array([7, 8])), axis=0)),
    ("broadcast", "keeps", lambda c: list(c.a.dims), lambda c: c.a.broadcast(c.a.newaxis("new", values=np.array([1, 2])))),
    ("broadcast one single label onto another", None, None, lambda c: c.arg(c.a.take_axis([0], axis=0, indexing="position")).broadcast(c.arg(c.a.take_axis([-1], axis=0, indexing="position")))),
    ("broadcast one single label onto another (transposed)", None, None, lambda c: c.arg(c.a.take_axis([0], axis=0, indexing="position")).T.broadcast(c.arg(c.a.take_axis([-1], axis=0, indexing="position")))),
    ("broadcast_arrays with single labels", None, None, lambda c: c.da.broadcast_arrays(c.arg(c.a.take_axis([0], axis=0, indexing="position")), c.arg(c.a.take_axis([-1], axis=0, indexing="position")))),
    ("broadcast_arrays", None, None, lambda c: c.da.broadcast_arrays(c.a, c.b.take_axis([0], axis=0, indexing="position").squeeze(c.b.dims[0]) if c.b.ndim > 1 else c.a)),
    ("flatten", "keeps", None, lambda c: c.a.flatten()),
    ("flatten subset reversed", "keeps", None, lambda c: c.a.flatten(c.a.dims[::-1][:2], insert=0)),
    ("flatten then labels", None, None, lambda c: c.a.flatten().labels),
    ("unflatten", "keeps", None, lambda c: c.a.flatten().unflatten()),
    ("reshape group", "keeps", None, lambda c: c.a.reshape(",".join(c.a.dims[::-1]))),
    ("reshape add", "keeps", None, lambda c: c.a.reshape(*(c.a.dims + ("n1",)))),
    ("reshape reorder", "keeps", None, lambda c: c.a.reshape(*c.a.dims[::-1])),
    ("reshape regroup", "keeps", None, lambda c: c.a.reshape(c.a.dims[-1], ",".join(c.a.dims[:-1])) if c.a.ndim > 2 else c.a.reshape(c.a.dims[-1], c.a.dims[0])),
    # ---- operations on an array with a grouped axis (its member axes are shared with `a`) ---------------------
    ("flattened unflatten", "keeps", None, lambda c: c.f.unflatten()),
    ("flattened reshape back", "keeps", None, lambda c: c.f.reshape(*c.a.dims)),
    ("flattened reshape regroup", "keeps", None, lambda c: c.f.reshape(",".join(c.a.dims[::-1]))),
    ("flattened ix slice", "keeps", None, lambda c: c.f.ix[0:2]),
    ("flattened position list", "keeps", None, lambda c: c.f.take_axis([1, 0], axis=0, indexing="position")),
    ("flattened sum", "keeps", None, lambda c: c.f.sum(axis=0)),
    ("flattened labels", None, None, lambda c: c.f.labels),
    ("flattened repr", None, None, lambda c: repr(c.f)),
    ("flattened + scalar", "drops", None, lambda c: c.f + 1),
    # ---- reindexing / sorting / interpolation -------------------------------------------------------------------
    ("reindex_axis", "keeps", lambda c: list(c.a.dims), lambda c: c.a.reindex_axis([c.lab(0), c.lab(0, 1)], axis=0)),
    ("reindex_axis missing", "keeps", lambda c: list(c.a.dims), lambda c: c.a.reindex_axis(list(c.a.labels[0][:1]) + [99], axis=0)),
    ("reindex_axis method", "keeps", lambda c: list(c.a.dims), lambda c: c.a.reindex_axis([float(c.a.labels[0][0]) + 0.1], axis=0, method="left")),
    ("reindex_axis Axis", "keeps", lambda c: list(c.a.dims), lambda c: c.a.reindex_axis(c.arg(c.da.Axis(c.a.labels[0][::-1].copy(), c.first)))),
    ("reindex_axis Axis missing", "keeps", lambda c: list(c.a.dims),
     lambda c: c.a.reindex_axis(c.arg(c.da.Axis(np.concatenate([c.a.labels[0][:1], [c.a.labels[0].max() + 7]]), c.first)))),
    ("reindex_axis array missing", "keeps", lambda c: list(c.a.dims),
     lambda c: c.a.reindex_axis(c.arg(np.concatenate([[c.a.labels[0].min() - 3], c.a.labels[0][::-1]])), axis=c.first)),
    ("reindex_like", "keeps", lambda c: list(c.a.dims), lambda c: c.a.reindex_like(c.b)),
    ("sort_axis", "keeps", lambda c: list(c.a.dims), lambda c: c.a.sort_axis(c.axk())),
    # ... along an axis that holds a single label (the array came out of an earlier selection and carries the metadata along)
    ("sort_axis on a single label", "keeps", lambda c: list(c.a.dims), lambda c: c.a.take_axis([c.k % c.a.shape[0]], axis=0, indexing="position").sort_axis(0)),
    ("sort_axis on a single label (last axis)", "keeps", lambda c: list(c.a.dims), lambda c: c.a.take_axis([0], axis=-1, indexing="position").sort_axis(c.a.dims[-1])),
    ("reindex_axis on a single label", "keeps", lambda c: list(c.a.dims), lambda c: (lambda s_: s_.reindex_axis(s_.labels[0].copy(), axis=0))(c.a.take_axis([0], axis=0, indexing="position"))),
    ("take_axis labels as ndarray of the axis' own dtype", "keeps", lambda c: list(c.a.dims), lambda c: c.a.take_axis(c.arg(c.a.labels[0][::-1].copy()), axis=0)),
    ("take_axis labels as ndarray (last axis)", "keeps", lambda c: list(c.a.dims), lambda c: c.a.take_axis(c.arg(c.a.labels[-1][:1].copy()), axis=c.a.dims[-1], indexing="label")),
    ("take_axis mode=clip", "keeps", lambda c: list(c.a.dims), lambda c: c.a.take_axis([0, 5, -7], axis=0, indexing="position", mode="clip")),
    ("take_axis mode=wrap", "keeps", lambda c: list(c.a.dims), lambda c: c.a.take_axis([1, 4], axis=c.a.dims[-1], indexing="position", mode="wrap")),
    # module-level align: the SECOND output is the array under test, reindexed onto labels it shares only in part with the first input
    ("align([other, a])[1]", "keeps", lambda c: list(c.a.dims), lambda c: c.da.align([c.arg(c.shifted_first()), c.a])[1]),
    ("align([other, a], join='inner')[1]", "keeps", lambda c: list(c.a.dims), lambda c: c.da.align([c.arg(c.shifted_first()), c.a], join="inner")[1]),
    ("take_axis on a single label", "keeps", lambda c: list(c.a.dims), lambda c: c.a.take_axis([0], axis=0, indexing="position").take_axis([0, 0], axis=0, indexing="position")),
    ("cumsum along a single label", "keeps", None, lambda c: c.a.take_axis([0], axis=0, indexing="position").cumsum(axis=0)),
    ("transpose with a single label", "keeps", lambda c: list(c.a.dims), lambda c: c.a.take_axis([0], axis=0, indexing="position").transpose()),
    ("sort_axis key", "keeps", lambda c: list(c.a.dims), lambda c: c.a.sort_axis(0, key=lambda x: -x)),
    ("dropna", "keeps", lambda c: list(c.a.dims), lambda c: c.a.dropna(axis=c.axk())),
    ("dropna minvalid", "keeps", lambda c: list(c.a.dims), lambda c: c.a.dropna(axis=c.axk(), minvalid=1)),
    ("interp_axis", "keeps", lambda c: list(c.a.dims[1:]), lambda c: c.a.interp_axis(c.arg(np.array(_interp_pts(c))), axis=0)),
    ("interp_axis fills", "keeps", lambda c: list(c.a.dims[1:]), lambda c: c.a.interp_axis(_interp_pts(c), axis=c.first, left=-1.0, right=-2.0)),
    ("interp_like", "keeps", None, lambda c: c.a.interp_like(c.arg(c.da.Axes([c.da.Axis(np.array(_interp_pts(c)), c.first)])))),
    # ---- aligning and joining -----------------------------------------------------------------------------------
    ("align", None, None, lambda c: c.da.align([c.a, c.b])),
    ("align sort", None, None, lambda c: c.da.align([c.a, c.b], sort=True)),
    ("align inner", None, None, lambda c: c.da.align([c.a, c.b], join="inner")),
    ("align inner sort", None, None, lambda c: c.da.align([c.a, c.b], join="inner", sort=True)),
    ("align axis sort", None, None, lambda c: c.da.align([c.a, c.b], axis=c.first, sort=True)),
    ("align one input sort", None, None, lambda c: c.da.align([c.a], sort=True)),
    ("align three", None, None, lambda c: c.da.align(c.arg([c.a, c.b, c.a.ix[0]]), sort=True)),
    ("stack", "drops", None, lambda c: c.da.stack([c.a, c.a], axis="s")),
    ("stack one input", "drops", None, lambda c: c.da.stack([c.a], axis="s")),
    ("stack one-key dict", "drops", None, lambda c: c.da.stack({"only": c.a}, axis="s")),
    ("stack align", "drops", None, lambda c: c.da.stack([c.a, c.a.sort_axis(0)], axis="s", align=True, sort=True)),
    ("stack dict keys", "drops", None, lambda c: c.da.stack(c.arg({"u": c.a, "v": c.a}), axis="s")),
    ("stack transposed", "drops", None, lambda c: c.da.stack([c.a, c.a.transpose(*c.a.dims[::-1])], axis="s")),
    ("concatenate", "drops", None, lambda c: c.da.concatenate([c.a, c.a], axis=c.axk())),
    ("concatenate one input", "drops", None, lambda c: c.da.concatenate([c.a], axis=c.axk())),
    ("concatenate align", "drops", None, lambda c: c.da.concatenate([c.a, c.a.sort_axis(c.a.ndim - 1)], axis=0, align=True, sort=True)),
    ("array()", None, None, lambda c: c.da.array([c.a, c.b], axis="s")),
    # ---- serialisation, conversion, copies ----------------------------------------------------------------------
    ("to_json", None, None, lambda c: c.a.to_json()),
    ("to_jsondict", None, None, lambda c: c.a.to_jsondict()),
    ("copy", None, None, lambda c: c.a.copy()),
    ("DimArray(a)", None, None, lambda c: c.da.DimArray(c.a)),
    ("DimArray(a, key=value)", None, None, lambda c: c.da.DimArray(c.a, extra_key="K", units="other")),
    ("array(a, key=value)", None, None, lambda c: c.da.array(c.a, extra_key2=1)),
    ("DimArray(a, copy=True)", None, None, lambda c: c.da.DimArray(c.a, copy=True)),
    ("DimArray({k: a, ...}, dims=)", None, None, lambda c: c.da.DimArray({"k1": c.a, "k2": c.a}, dims=["knew"] + ["r%d" % i for i in range(c.a.ndim)])),
    ("DimArray([a, a])", None, None, lambda c: c.da.DimArray([c.a, c.a])),
    ("from_nested", None, None, lambda c: c.da.DimArray.from_nested({"k1": c.a, "k2": c.b}, dims=["knew"])),
    ("to_dataset", None, None, lambda c: c.a.to_dataset(axis=0)),
    ("to_MaskedArray", None, None, lambda c: c.a.to_MaskedArray()),
    ("np.asarray", None, None, lambda c: np.asarray(c.a)),
    ("repr", None, None, lambda c: repr(c.a)),
    ("str", None, None, lambda c: str(c.a)),
    ("summary_repr", None, None, lambda c: c.a.summary_repr()),
    # ---- Dataset construction and Dataset operations -----------------------------------------------------------
    ("Dataset(a=, b=)", None, None, lambda c: c.da.Dataset(a=c.a, b=c.b)),
    ("Dataset setitem", None, None, lambda c: c.da.Dataset().__setitem__("v", c.a)),
    ("Dataset ops", None, None, lambda c: (lambda ds: (ds.mean(axis=c.first), ds.take(indices=c.lab(0), axis=c.first), ds.sort_axis(c.first), ds + 1, 2 - ds,
                                                       ds.take_axis([0], axis=c.first, indexing="position"), ds.reindex_axis([c.lab(0), 99], axis=c.first),
                                                       ds.interp_axis(_interp_pts(c), axis=c.first), ds.copy(), ds.to_array(axis="vv", keys=list(ds.keys()))))(c.da.Dataset(a=c.a))),
    ("Dataset ops, a variable lacks the axis", None, None, _ds_with_lacking),
    ("Dataset rename copies", None, None, lambda c: (lambda ds: (ds.rename_axes({c.first: "renamed"}, inplace=False), ds.set_axis(name="renamed2", axis=c.first, inplace=False),
                                                                 ds.rename_keys({"a": "z"}, inplace=False)))(c.da.Dataset(a=c.a))),
    ("Dataset rename in place", None, None, lambda c: (lambda ds: (ds.rename_axes({c.first: "renamed"}), ds.set_axis(np.arange(c.a.shape[0]), axis=0),
                                                                   ds.axes["renamed"].__setitem__(0, 555)))(c.da.Dataset(a=c.a, b=c.b))),
    ("Dataset ds+ds", None, None, lambda c: c.da.Dataset(a=c.a) * c.da.Dataset(a=c.a.sort_axis(0))),
    ("stack_ds", None, None, lambda c: c.da.stack_ds([c.da.Dataset(a=c.a), c.da.Dataset(a=c.a)], axis="s")),
    ("concatenate_ds", None, None, lambda c: c.da.concatenate_ds([c.da.Dataset(a=c.a), c.da.Dataset(a=c.a)], axis=c.first)),
]

NAMES = [e[0] for e in CATALOGUE]
# entries that the library refuses on the unchanged tree (kept in the catalogue because an ANSWER would have to obey the rules)
REFUSED = {"+(boolean array with metadata)", "+(string array with metadata)"}
assert len(NAMES) == len(set(NAMES))
