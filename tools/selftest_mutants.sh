#!/bin/bash
# Sensitivity self-test: every mutants/<ID>-*.patch must make the quick check of property <ID> print a VIOLATION line.
# usage: tools/selftest_mutants.sh [jobs]   -> prints one line per mutant, exit 1 if any mutant survives
cd "$(dirname "${BASH_SOURCE[0]}")/.."
J=${1:-8}
export VERIF_REPLAY_DIR=$(mktemp -d)
trap 'rm -rf "$VERIF_REPLAY_DIR"' EXIT
one() {
  m="$1"; id=$(basename "$m" | cut -c1-3)
  out=$(tools/with_patch.sh "$m" "$id" --tier quick 2>&1); rc=$?
  if echo "$out" | grep -q "^VIOLATION property=$id"; then echo "CAUGHT   $m"; else echo "SURVIVED $m (rc=$rc)"; fi
}
export -f one
ls mutants/*.patch | xargs -P "$J" -I{} bash -c 'one {}' | sort > /tmp/selftest_mutants.$$.txt
cat /tmp/selftest_mutants.$$.txt
n=$(grep -c SURVIVED /tmp/selftest_mutants.$$.txt); rm -f /tmp/selftest_mutants.$$.txt
echo "survivors: $n"
[ "$n" = "0" ]
