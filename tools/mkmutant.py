#!/usr/bin/env python3
"""tools/mkmutant.py <name> <file-relative-to-repo> <old> <new> : write mutants/<name>.patch (unified diff, -p1)"""
import difflib, sys, os
name, rel, old, new = sys.argv[1:5]
old = old.encode().decode('unicode_escape'); new = new.encode().decode('unicode_escape')
src = open(os.path.join('/repo', rel)).read()
assert src.count(old) == 1, "pattern occurs %d times" % src.count(old)
dst = src.replace(old, new)
diff = difflib.unified_diff(src.splitlines(True), dst.splitlines(True), 'a/' + rel, 'b/' + rel)
os.makedirs('/verif/mutants', exist_ok=True)
open('/verif/mutants/%s.patch' % name, 'w').write(''.join(diff))
print('wrote mutants/%s.patch' % name)
