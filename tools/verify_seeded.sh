#!/bin/bash
# tools/verify_seeded.sh <dir with patch.diff demo.py meta.json> <PID> [more check ids...]
# Confirms independently: patch applies to a scratch copy of /repo; the baseline suite still passes there; demo.py passes on
# /repo and fails on the patched copy; then runs the registered quick check(s) against the patched copy.
D="$(realpath "$1")"; shift
S=$(mktemp -d "${TMPDIR:-/tmp}/seeded-scratch.XXXXXX"); trap 'rm -rf "$S"' EXIT
mkdir -p "$S/repo"; rsync -a --exclude .git --exclude __pycache__ /repo/ "$S/repo/"
(cd "$S/repo" && patch -s -p1 < "$D/patch.diff") || { echo "PATCH-DOES-NOT-APPLY"; exit 3; }
b=$(/verif/tools/baseline.sh "$S/repo" | tail -1); echo "baseline on patched copy: $b"
(cd /tmp && /venv/bin/python "$D/demo.py" /repo >/dev/null 2>&1); r0=$?
(cd /tmp && /venv/bin/python "$D/demo.py" "$S/repo" >/dev/null 2>&1); r1=$?
echo "demo: unmodified exit=$r0 patched exit=$r1"
export VERIF_REPLAY_DIR="$S/replays"
for id in "$@"; do
  out=$(cd /verif && VERIF_REPO="$S/repo" VERIF_NO_EVIDENCE=1 ./check $id --tier quick 2>&1); rc=$?
  echo "check $id rc=$rc :: $(echo "$out" | grep -v KNOWN | grep "^violation\|^VIOLATION\|HARNESS" | head -2 | cut -c1-400)"
done
