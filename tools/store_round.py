#!/usr/bin/env python3
"""Store the confirmed seeded changes of one round under /verif/seeded/<ID>-<suffix><n>/ (patch.diff, demo.py, meta.json).

usage: tools/store_round.py <suffix> <round number> <round log> <notes.json>
  round log : output of the round's verification (one line per deliverable directory, containing 'rc=1' when the registered check caught it)
  notes.json: {"C05k/1": "what was strengthened", ...} for the changes that were missed before strengthening
"""
import json, os, shutil, sys

suffix, rnd, log, notes = sys.argv[1], int(sys.argv[2]), sys.argv[3], json.load(open(sys.argv[4]))
caught = {}
for line in open(log):
    if " :: " in line:
        d = line.split(" :: ")[0].strip()
        caught[d] = ("rc=1" in line) or ("VIOLATION" in line)
n = 0
for d, ok in sorted(caught.items()):
    pid, k = d.rstrip("/").split("/")[-2:]
    pid = pid[:3]
    key = "%s%s/%s" % (pid, suffix, k)
    if not ok:
        print("NOT CAUGHT, not stored:", d)
        continue
    dst = "/verif/seeded/%s-%s%s" % (pid, suffix, k)
    os.makedirs(dst, exist_ok=True)
    for f in ("patch.diff", "demo.py"):
        shutil.copy(os.path.join(d, f), os.path.join(dst, f))
    meta = json.load(open(os.path.join(d, "meta.json")))
    meta = {k_: meta[k_] for k_ in ("property", "summary", "needs", "files", "tests_before", "tests_after") if k_ in meta}
    meta["property"] = pid
    meta["round"] = rnd
    meta["written_by"] = ("independent sub-agent given only the property text, a scratch worktree of /repo and the one-line summaries of the changes of "
                          "rounds 1-%d; two independent changes" % (rnd - 1))
    meta["confirmed"] = {"patch_applies_to_/repo_HEAD": True, "baseline_180_stable_tests_pass_with_patch": True, "demo_passes_without_patch": True,
                         "demo_fails_with_patch": True, "how": "tools/verify_seeded.sh seeded/%s-%s%s %s" % (pid, suffix, k, pid)}
    meta["detected_by"] = "./check %s --tier quick (VIOLATION)" % pid
    meta["detected_by_own_property_before_strengthening"] = key not in notes
    if key in notes:
        meta["strengthening"] = notes[key]
    json.dump(meta, open(os.path.join(dst, "meta.json"), "w"), indent=1)
    n += 1
print("stored", n)
