#!/usr/bin/env python3
"""tools/mk_seeded_table.py : regenerate the table of DESIGN.md 10.6 from seeded/*/meta.json (rows of rounds 1-3 keep the
hand-written strengthening column already in DESIGN.md)"""
import json, os, re
p = '/verif/DESIGN.md'
s = open(p).read()
start = s.index('| id | change (summary by its author) | first try | strengthening |')
end = s.index('Summary: ', start)
old_rows = {}
for line in s[start:end].splitlines():
    m = re.match(r'\| (C\d\d-[a-z]\d?) \| (.*?) \| (yes|no) \| (.*) \|$', line)
    if m:
        old_rows[m.group(1)] = (m.group(3), m.group(4))
rows = []
n = first = 0
per_round = {}
for d in sorted(os.listdir('/verif/seeded')):
    if d == 'rejected':
        continue
    m = json.load(open('/verif/seeded/%s/meta.json' % d))
    summ = (m.get('summary') or '').replace('\n', ' ').replace('|', '/')[:170]
    if d in old_rows and d[4] in 'abc':
        ft, st_ = old_rows[d]
    else:
        ft = 'yes' if m.get('detected_by_own_property_before_strengthening') else 'no'
        st_ = m.get('strengthening', '-')
        if d in old_rows and 'Obsolete' in old_rows[d][1]:
            st_ = old_rows[d][1]
    n += 1
    first += ft == 'yes'
    r = per_round.setdefault(d[4], [0, 0])
    r[0] += 1
    r[1] += ft == 'yes'
    rows.append('| %s | %s | %s | %s |' % (d, summ, ft, st_))
table = ('| id | change (summary by its author) | first try | strengthening |\n|----|--------------------------------|-----------|---------------|\n'
         + '\n'.join(rows) + '\n\n')
s = s[:start] + table + s[end:]
open(p, 'w').write(s)
print(n, first, per_round)
