#!/bin/bash
# Run the repository's pinned baseline suite (guard OFF) and check that every test listed as
# stable in /root/.vp/BASELINE.json still passes.  Usage: tools/baseline.sh [repo_dir]
REPO=${1:-/repo}
OUT=$(mktemp -d)
trap 'rm -rf "$OUT"' EXIT
cd "$REPO" && env -u DIMARRAY_VERIF /venv/bin/python -m pytest -ra -q -p no:cacheprovider --timeout=900 --continue-on-collection-errors --junitxml="$OUT/j.xml" >"$OUT/log" 2>&1
/venv/bin/python - "$OUT/j.xml" <<'PY'
import sys, json, xml.etree.ElementTree as ET
base = json.load(open('/root/.vp/BASELINE.json'))
stable = set(base['stable_pass'])
passed = set()
for tc in ET.parse(sys.argv[1]).getroot().iter('testcase'):
    bad = any(c.tag in ('failure', 'error', 'skipped') for c in tc)
    name = tc.get('classname') + '::' + tc.get('name')
    if not bad:
        passed.add(name)
missing = sorted(stable - passed)
print("baseline: %d passed in total, %d/%d stable tests pass" % (len(passed), len(stable & passed), len(stable)))
for m in missing[:20]:
    print("  MISSING", m)
sys.exit(1 if missing else 0)
PY
