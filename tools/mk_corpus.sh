#!/bin/bash
# tools/mk_corpus.sh <fix-commit> <PID> <name> : revert the fix in a scratch copy, let the quick check find and shrink
# the violation, and keep the replay as corpus/<PID>/<name>.json (a regression case that passes on the repaired tree)
C="$1"; P="$2"; N="$3"
D=$(mktemp -d)
VERIF_REPLAY_DIR="$D" /verif/tools/with_patch.sh -R "$C" "$P" --tier quick | tail -2 | cut -c1-300
F=$(ls "$D/$P"/*.json 2>/dev/null | head -1)
if [ -z "$F" ]; then echo "NO VIOLATION FOUND for revert of $C on $P"; rm -rf "$D"; exit 1; fi
mkdir -p /verif/corpus/$P && cp "$F" /verif/corpus/$P/$N.json && echo "kept corpus/$P/$N.json"
rm -rf "$D"
cd /verif && ./check $P --replay corpus/$P/$N.json | tail -1
