#!/bin/bash
# tools/run_all.sh [tier] [seed] : run every registered check once, print one line per property
TIER=${1:-quick}; SEED=${2:-1}
cd "$(dirname "${BASH_SOURCE[0]}")/.."
for p in C01 C02 C03 C04 C05 C06 C07 C08 C09 C10 C11 C12 C13 C14 C15 C16 C17 C18 C19 C20; do
  s=$(date +%s)
  out=$(VERIF_SEED=$SEED ./check $p --tier $TIER 2>&1); rc=$?
  e=$(date +%s)
  echo "$p rc=$rc $((e-s))s :: $(echo "$out" | grep -v KNOWN-FINDING | tail -1 | cut -c1-300)"
  if [ $rc -ne 0 ]; then echo "$out" | grep -v "^ " | tail -4 | cut -c1-1200; fi
done
