#!/usr/bin/env python3
"""Regenerate /verif/MANIFEST.json from the property modules that exist under props/.
Properties without a module are listed under not_applicable with the reason given in NOT_BUILT."""
import glob
import json
import os
import re

HERE = os.path.dirname(os.path.dirname(os.path.abspath(__file__)))

LEVEL_TEXT = {
    "C01": "Generated-input search: arrays x per-dimension index descriptors x spellings x 'indexing.by', decided against a label->position model on Python lists (np.ix_ only on the oracle side) and a cross-spelling differential; 1-D lookups on all permutations of 4 labels enumerated. No counterexample among the explored cases; not a proof.",
    "C02": "Bounded-exhaustive enumeration of every 1-D label slice on monotonic int/float axes of length 0-5 (all bounds below/on/between/above, 6 steps), of non-monotonic and str axes and of position slices, plus generated N-d embeddings; oracle = inclusive bounding box written as a list comprehension in walking order. Exhaustive within those bounds, exploration beyond.",
    "C03": "Generated assignments (all index forms, scalar/array right-hand sides, inplace, cast) checked against copy-and-assign on model positions plus read-back round trip and snapshot of everything else; dtype-kind x assigned-kind x index-form cast table enumerated.",
    "C04": "Generated operand pairs with constructed label relations (equal/permuted/subset/superset/overlapping/disjoint, any storage order, any dimension order) x 6 operators x both operand orders, evaluated per coordinate on a dict model that has no notion of position.",
    "C05": "Constructor forms differential (all documented spellings must build equal arrays, malformed ones must raise) and generated operation histories with a well-formedness invariant on every object passing through DimArray.__init__ and a history-laden vs freshly-rebuilt twin differential after every step.",
    "C06": "Generated lists of 1-4 arrays/Datasets with constructed label relations x join x sort x axis; oracle = set algebra on labels, ordering rule, per-coordinate data preservation, operand snapshots.",
    "C07": "Generated reindex_axis / reindex_like calls (subset, superset, disjoint, permuted, repeated, empty; fill, raise_error, method) against a slice-by-label model including the searchsorted rule written from the statement.",
    "C08": "All shapes with sizes 1-4 up to 3-d x 11 reductions x every axis form x skipna enumerated with generated NaN patterns, 4-d and percentile sampled; per-fibre textbook reductions on Python lists plus NumPy cross-check; axis bookkeeping by name.",
    "C09": "Generated cumsum/cumprod/diff/argmin/argmax calls; diff parameter grid enumerated; NumPy values + label bookkeeping rules; arg-extremum validity predicate (a[labels] == min/max) tolerant of ties.",
    "C10": "All permutations / axis pairs / roll positions / insertion positions enumerated per generated array (incl. square ones), broadcast targets generated; coordinate-preservation on the dict model and inverse compositions.",
    "C11": "All non-empty ordered subsets of the dimensions x insert positions enumerated per generated array; row-major product oracle on member labels; flatten/unflatten round trip; reshape targets generated; tuple reduction vs flatten-then-reduce.",
    "C12": "Generated lists/dicts of near-miss inputs (permuted secondary labels, transposed square inputs, overlapping/disjoint axes) for stack and concatenate; per-key / per-segment coordinate model; prescribed ValueError.",
    "C13": "Generated Dataset mutation programs (<= 30 steps, incl. rejected assignments) replayed against a model dataset; object-identity invariant and full state comparison after every step.",
    "C14": "Generated Datasets with partially overlapping dimension sets x dataset-wide operations; differential against the per-variable DimArray operation + shared-axes invariant on the result.",
    "C15": "Whole operation catalogue applied to operands with unsorted axes, mutable metadata and aliased Axis objects: deep snapshot before == after (also when the call raises); copy-then-mutate sequences for copy independence.",
    "C16": "Attribute-name classes x 3 classes x set/get/has/del enumerated against a 3-branch routing model; propagation table (keeps / drops) over the operation catalogue with generated attrs dicts.",
    "C17": "Generated sort_axis / take_axis / compress / dropna / fillna / setna calls; slice-with-label model and exact cell sets; minvalid grid enumerated per array.",
    "C18": "Generated interp_axis / interp_like / Dataset.interp_axis calls; hand-written piecewise-linear interpolation per fibre on the model, cross-checked with np.interp on the sorted fibre.",
    "C19": "JSON round trip on generated arrays; netCDF write -> read round trip and write programs against an in-memory model, run on a file-backed stand-in for the netCDF4 module (the C binding is absent from the sandbox).",
    "C20": "On-disk vs fully-loaded differential for every index form, on-disk write programs against a shadow in-memory dataset, multi-file reads vs stack_ds/concatenate_ds; on the netCDF4 stand-in.",
}

NOTE = {
    "default": "Trusted base: the reference model (vlib/core.py, vlib/indexmodel.py: dict/list code), NumPy as an independent witness where named, Hypothesis' generators. Explores small sizes (<= 4-5 per axis, <= 4 dims); exit 0 means no counterexample among the cases counted in the evidence file.",
    "C19": "Trusted base as above plus vlib/fake_netcdf4 (a pickle-backed model of the netCDF4-python API subset used by dimarray/io/nc.py); nothing is shown about the real netCDF4/HDF5 stack.",
    "C20": "Trusted base as above plus vlib/fake_netcdf4 (a pickle-backed model of the netCDF4-python API subset used by dimarray/io/nc.py); nothing is shown about the real netCDF4/HDF5 stack.",
}

TECH = {
    "C02": "bounded-exhaustive enumeration + property-based testing (Hypothesis) against a list-comprehension oracle",
    "C05": "property-based testing: constructor differential + generated operation histories (program-as-data state machine) with invariants",
    "C13": "model-based stateful property testing (generated mutation programs vs model dataset, invariant after every step)",
    "C19": "round-trip property testing with generated datasets and write programs (netCDF4 stand-in)",
    "C20": "differential property testing (on-disk vs in-memory) with generated write/read programs (netCDF4 stand-in)",
}


def main():
    props = [json.loads(l) for l in open(os.path.join(HERE, "properties.jsonl"))]
    have = {}
    for p in glob.glob(os.path.join(HERE, "props", "c[0-9][0-9]_*.py")):
        have[os.path.basename(p)[:3].upper()] = p
    checks, na = [], []
    for pr in props:
        pid = pr["id"]
        if pid not in have:
            na.append({"property_id": pid, "reason": "check not built yet in this session (planned, see DESIGN.md section 6); no claim is made"})
            continue
        sec = "6.%d" % int(pid[1:])
        checks.append({
            "property_id": pid,
            "quick_cmd": "./check %s --tier quick" % pid,
            "thorough_cmd": "./check %s --tier thorough" % pid,
            "evidence_file": "evidence/%s.json" % pid,
            "replay_cmd_template": "./check %s --replay {path}" % pid,
            "engine": "vlib",
            "level_claimed": {"category": "exploration", "text": LEVEL_TEXT[pid], "design_ref": "DESIGN.md section " + sec},
            "level_note": NOTE.get(pid, NOTE["default"]),
            "technique": TECH.get(pid, "property-based testing (Hypothesis, seeded) against an explicit reference model; shrunk failures become JSON replay files"),
        })
    man = {
        "version": 1,
        "setup_cmd": "./setup.sh",
        "hooks": {
            "guard": "DIMARRAY_VERIF",
            "enable": "no source hooks exist: checks import /repo's working tree directly (pure Python) and observe DimArray.__init__ by wrapping it from the harness; DIMARRAY_VERIF=1 is exported by ./check for completeness",
            "baseline_off_cmd": "cd /repo && env -u DIMARRAY_VERIF /venv/bin/python -m pytest -ra -q -p no:cacheprovider --timeout=900 --continue-on-collection-errors",
            "source_commits": [],
            "add_only": True,
        },
        "engines": [{"name": "vlib", "path": "vlib/", "serves_properties": sorted(have),
                     "kind_free_text": "seeded Hypothesis search + bounded-exhaustive enumeration against reference models; program-as-data histories; JSON replay"}],
        "checks": checks,
        "notes": "All checks: exit 0 held / 1 VIOLATION line / 2 harness error. Known findings: known_findings.json. Seeds: VERIF_SEED. Thorough tiers shard over 16 processes.",
        "not_applicable": na,
    }
    with open(os.path.join(HERE, "MANIFEST.json"), "w") as f:
        json.dump(man, f, indent=1)
    print("MANIFEST.json: %d checks, %d not_applicable" % (len(checks), len(na)))


if __name__ == "__main__":
    main()
