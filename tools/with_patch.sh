#!/bin/bash
# Run a check against a scratch copy of /repo with one patch applied (sensitivity self-test).
# usage: tools/with_patch.sh [-R] <patch-file | git-commit> <check args...>
# The scratch copy lives outside /repo and /verif and is removed afterwards.
REV=""
if [ "$1" = "-R" ]; then REV="-R"; shift; fi
PATCH="$1"; shift
[ -f "$PATCH" ] && PATCH="$(realpath "$PATCH")"
SCRATCH=$(mktemp -d "${TMPDIR:-/tmp}/dimarray-scratch.XXXXXX")
trap 'rm -rf "$SCRATCH"' EXIT
mkdir -p "$SCRATCH/repo"
rsync -a --exclude .git --exclude '__pycache__' --exclude '*.pyc' /repo/ "$SCRATCH/repo/"
if [ -f "$PATCH" ]; then
  (cd "$SCRATCH/repo" && patch -s -p1 $REV < "$PATCH") || { echo "patch failed"; exit 3; }
else
  git -C /repo show "$PATCH" -- dimarray > "$SCRATCH/p.diff"
  (cd "$SCRATCH/repo" && patch -s -p1 $REV < "$SCRATCH/p.diff") || { echo "patch failed"; exit 3; }
fi
cd /verif && VERIF_REPO="$SCRATCH/repo" VERIF_NO_EVIDENCE=1 ./check "$@"
