"""C08 - Reductions equal NumPy's along the named axis and drop only that axis.

Statement: "For every reduction (sum, prod, mean, var, std, min, max, ptp, all, any, median, and percentile)
a.f(axis=d), with d given by name or by position, returns NumPy's f over .values along that dimension, labelled
with the remaining axes in their original order and carrying the array's metadata; axis=None reduces the whole
array to a scalar and a tuple of dimensions reduces over all of them at once.  With skipna=False a NaN anywhere
in a reduced slice makes that result NaN (median included); with skipna=True NaNs are ignored as missing values."

Oracle: per output coordinate the fibre is extracted from the dict model (a Python list) and reduced with the
textbook definition; NaN policy from the statement; a second oracle cross-checks NaN-free fibres with NumPy.
"""
import itertools
import math
import warnings

import numpy as np
from hypothesis import strategies as st

from vlib import core, gen
from vlib.core import lib, check, Violation

ID = "C08"
TITLE = "Reductions equal NumPy's along the named axis and drop only that axis"
RULE = ("enumerated: every shape with sizes 1-4 of 1-3 dimensions (84 shapes; quick: sizes 1-3 for 3-d) with a deterministic value and NaN "
        "pattern (none | sparse | one whole fibre | all) x 11 reductions x every axis form (each dim by name, position, negative position; "
        "None; every ordered pair and the full tuple of names, lists of positions) x skipna in {False, True}; generated: 1-4-d float/int/bool "
        "arrays with random dyadic values and NaN patterns, unsorted labels of any kind, plus percentile (scalar and list q).  "
        "A sub-case is non-trivial when ndim >= 2, or a reduced fibre contains NaN, or the result has a single element.")
ASSUMPTIONS = [
    "oracle: textbook reductions on Python lists; computed values compared with rtol=atol=1e-12; values are dyadic rationals k/4",
    "all/any follow NumPy truthiness (NaN is truthy) when skipna=False; with skipna=True an all-NaN fibre gives sum 0, prod 1, all True, any False, NaN otherwise",
    "ptp on bool data is excluded (NumPy refuses boolean subtraction); percentile inputs are NaN-free",
    "attrs of percentile results are not asserted (built on stack, see DESIGN 6.8)",
]
MANDATORY = ["axis:name", "axis:pos", "axis:negpos", "axis:None", "axis:tuple", "axis:tuple-all", "skipna:True", "nan:whole-fibre", "nan:all",
             "nan:sparse", "vk:i", "vk:b", "result:single-element", "percentile:list", "percentile:scalar", "labels:unsorted", "values:inf", "dtype:float32", "percentile:extreme-of-int-data", "axis:tuple-of-one", "dtype-checked:b->i", "dtype-checked:i->f", "dtype-checked:f->f", "dtype-checked:b->b"]

REDS = ["sum", "prod", "mean", "var", "std", "min", "max", "ptp", "all", "any", "median"]


def budget(tier):
    return {"quick": dict(examples=1200, shards=1), "thorough": dict(examples=5000, shards=16)}[tier]


# ----------------------------------------------------------------------------------------------
# the textbook reductions
# ----------------------------------------------------------------------------------------------

def reduce_list(name, xs, skipna):
    xs = [core.pyscalar(x) for x in xs]
    has_nan = any(core.isnan(x) for x in xs)
    if skipna:
        xs = [x for x in xs if not core.isnan(x)]
        if not xs:
            return {"sum": 0.0, "prod": 1.0, "all": True, "any": False}.get(name, float("nan"))
    elif has_nan and name not in ("all", "any"):
        return float("nan")
    n = len(xs)
    if name == "sum":
        return sum(xs)
    if name == "prod":
        p = 1
        for x in xs:
            p = p * x
        if isinstance(p, int) and not isinstance(p, bool) and not -2 ** 63 <= p < 2 ** 63:
            p = ((p + 2 ** 63) % 2 ** 64) - 2 ** 63      # NumPy's int64 product wraps around; so does the oracle
        return p
    if name == "mean":
        return sum(float(x) for x in xs) / n
    if name in ("var", "std"):
        m = sum(float(x) for x in xs) / n
        v = sum((float(x) - m) ** 2 for x in xs) / n
        return v if name == "var" else math.sqrt(v)
    if name == "min":
        return min(xs)
    if name == "max":
        return max(xs)
    if name == "ptp":
        return max(xs) - min(xs)
    if name == "all":
        return all(bool(x) for x in xs)
    if name == "any":
        return any(bool(x) for x in xs)
    if name == "median":
        s = sorted(float(x) for x in xs)
        return s[n // 2] if n % 2 else (s[n // 2 - 1] + s[n // 2]) / 2.0
    raise ValueError(name)


def _values_from(spec):
    return core.spec_values(spec)


def check_reduction(a, spec, name, axis_form, axis_dims, skipna, cl, attrs=None):
    """run a.<name>(axis=axis_form, skipna=) and compare with the model. axis_dims: list of dim names reduced (None = all, scalar)"""
    da = core.env.import_dimarray()
    dims, labels = spec["dims"], spec["labels"]
    m = core.model_of_spec(spec)
    reduced = list(dims) if axis_dims is None else list(axis_dims)
    remaining = [d for d in dims if d not in reduced]
    kw = {}
    if axis_form != "default":
        kw["axis"] = tuple(axis_form) if isinstance(axis_form, list) and axis_form and axis_form[0] == "T" else axis_form
        if isinstance(axis_form, list) and axis_form and axis_form[0] == "T":
            kw["axis"] = tuple(axis_form[1:])
        elif isinstance(axis_form, list) and axis_form and axis_form[0] == "L":
            kw["axis"] = list(axis_form[1:])
    if skipna:
        kw["skipna"] = True
    what = "%s(%s) dims=%s shape=%s vals=%s" % (name, kw, dims, [len(l) for l in labels], core.jsonable(_values_from(spec)))
    sig = {"op": name, "skipna": bool(skipna)}
    # fibre classes (for known-finding matching and non-triviality)
    fibres = {}
    for coord in m.coords():
        c = dict(zip(dims, coord))
        key = tuple(c[d] for d in remaining)
        fibres.setdefault(key, []).append(m.cells[coord])
    any_nan = any(any(core.isnan(x) for x in f) for f in fibres.values())
    all_nan_fibre = any(all(core.isnan(x) for x in f) for f in fibres.values())
    sig["fibre"] = "all-nan" if all_nan_fibre else ("nan" if any_nan else "finite")
    res = lib(lambda: getattr(a, name)(**kw), what=what, sig=sig)
    if "axis" in kw and (skipna or name in ("sum", "median", "any", "ptp")):
        # the documented parameter order f(axis, skipna), both given by position: the same result
        res_p = lib(lambda: getattr(a, name)(kw["axis"], bool(skipna)), what=what + " [axis, skipna by position]", sig=sig)
        if isinstance(res, da.DimArray) or isinstance(res_p, da.DimArray):
            check(isinstance(res, da.DimArray) and isinstance(res_p, da.DimArray), "positional-call-differs", {"what": what}, sig)
            core.expect_equal_arrays(res_p, res, what + " [positional vs keyword call]", sig=sig)
        else:
            check(core.same_scalar(res_p, res), "positional-call-differs", {"what": what, "positional": core.jsonable(res_p), "keyword": core.jsonable(res)}, sig)
    if not remaining:
        # "reduces the whole array to a scalar": a Python or NumPy scalar, not a 0-d ndarray or a 0-d DimArray
        check(not isinstance(res, (da.DimArray, np.ndarray)), "scalar-expected", {"what": what, "got": core.brief(res), "type": type(res).__name__}, sig)
        got = res
        exp = reduce_list(name, fibres[()], skipna)
        check(core.same_scalar(got, exp, tol=True), "value", {"what": what, "got": core.jsonable(got), "expected": core.jsonable(exp)}, sig)
    else:
        rlabels = [labels[dims.index(d)] for d in remaining]

        def val(c):
            return reduce_list(name, fibres[tuple(core.canon_label(c[d]) for d in remaining)], skipna)
        core.expect_array(res, remaining, rlabels, val, what, tol=True, sig=sig)
        # "labelled with the remaining axes": the axes that are not reduced come through as they are, metadata and tolerance included
        for d_ in remaining:
            src_ax = a.axes[d_]
            check(core.attrs_equal(res.axes[d_].attrs, src_ax.attrs) and res.axes[d_].tol == src_ax.tol, "remaining-axis-changed",
                  {"what": what, "dim": d_, "attrs": core.jsonable(dict(res.axes[d_].attrs)), "tol": res.axes[d_].tol, "expected_attrs": core.jsonable(dict(src_ax.attrs)), "expected_tol": src_ax.tol}, sig)
        if attrs is not None:
            check(core.attrs_equal(res.attrs, attrs), "attrs-not-carried", {"what": what, "got": core.jsonable(res.attrs), "expected": attrs}, sig)
        if res.values.size == 1:
            cl.add("result:single-element")
    # "returns NumPy's f over .values": also NumPy's result type (a count of booleans is an integer, the mean of integers a float)
    if not skipna or _values_from(spec).dtype.kind != "f":       # (integer / boolean data hold no NaN: skipna=True has nothing to skip)
        vals0 = _values_from(spec)
        with np.errstate(all="ignore"), warnings.catch_warnings():
            warnings.simplefilter("ignore")
            npd = np.asarray(getattr(np, name)(vals0, axis=tuple(dims.index(d) for d in reduced))).dtype
        gotd = np.asarray(res.values if remaining else res).dtype
        # (the kind is compared - bool / integer / float -, not the precision: the library computes e.g. the median of float32 data in double precision)
        check(gotd.kind == npd.kind, "result-dtype-kind", {"what": what, "got": str(gotd), "numpy": str(npd), "input": str(vals0.dtype)}, sig)
        cl.add("dtype-checked:" + vals0.dtype.kind + "->" + npd.kind)
    # second oracle: NumPy itself on NaN-free data (validates the textbook code; a disagreement here is a harness problem)
    if not any_nan and not skipna and len(reduced) == 1:
        vals = _values_from(spec)
        with np.errstate(all="ignore"):
            npres = getattr(np, name)(vals, axis=dims.index(reduced[0]))
        mine = np.array([reduce_list(name, fibres[k], False) for k in fibres], dtype=float) if remaining else None
        if remaining:
            npflat = {}
            for idx in itertools.product(*[range(len(labels[dims.index(d)])) for d in remaining]):
                key = tuple(core.canon_label(labels[dims.index(d)][i]) for d, i in zip(remaining, idx))
                npflat[key] = np.asarray(npres)[idx]
            for k in fibres:
                if not core.same_scalar(float(npflat[k]), float(reduce_list(name, fibres[k], False)), tol=True):
                    raise RuntimeError("oracle disagrees with NumPy on NaN-free data: %s %r" % (what, k))
    nontrivial = len(dims) >= 2 or any_nan or (remaining and int(np.prod([len(labels[dims.index(d)]) for d in remaining])) == 1)
    return nontrivial


# ----------------------------------------------------------------------------------------------
# enumeration over shapes
# ----------------------------------------------------------------------------------------------

def _det_spec(shape, k):
    dims = ["x", "y", "z", "w"][:len(shape)]
    labels = []
    for i, n in enumerate(shape):
        labels.append([[3, 1, 4, 2], [0.5, 2.5, 1.5, 3.5], ["b", "a", "d", "c"], [7, 5, 6, 8]][(i + k) % 4][:n])
    ncell = int(np.prod(shape))
    vals = [(((j * 7 + 3 * k) % 23) - 11) / 4.0 for j in range(ncell)]
    vk = "f"
    mode = k % 6
    if mode == 1:  # sparse NaN
        for j in range(0, ncell, 3):
            vals[j] = "NaN"
    elif mode == 2:  # one whole fibre along the last dim
        for j in range(shape[-1]):
            vals[j] = "NaN"
    elif mode == 3:
        vals = ["NaN"] * ncell
    elif mode == 4:
        vk = "i"
        vals = [int(((j * 5 + k) % 9) - 4) for j in range(ncell)]
    elif mode == 5:
        vk = "b"
        vals = [bool((j + k) % 3) for j in range(ncell)]
    return {"dims": dims, "labels": labels, "vk": vk, "vals": vals}


def enumerate_cases(tier):
    k = 0
    for nd in (1, 2, 3):
        top = 4 if (nd < 3 or tier == "thorough") else 3
        for shape in itertools.product(range(1, top + 1), repeat=nd):
            for rep in range(2 if tier == "quick" else 6):
                k += 1
                yield "shapes<=3d", {"mode": "shape", "spec": _det_spec(list(shape), k)}
    # a few 4-d shapes with every axis form (all ordered pairs and triples of names, incl. non-adjacent ones)
    shapes4 = [(2, 3, 2, 2), (2, 2, 2, 2), (1, 2, 3, 2)] + ([(3, 2, 1, 2), (2, 2, 3, 3), (2, 3, 4, 2)] if tier == "thorough" else [])
    for shape in shapes4:
        k += 6    # NaN-free float pattern (mode 0)
        yield "shapes-4d", {"mode": "shape", "spec": _det_spec(list(shape), k - (k % 6))}
        yield "shapes-4d", {"mode": "shape", "spec": _det_spec(list(shape), k - (k % 6) + 1)}


def axis_forms(dims):
    """(form, reduced dims) for every way of naming the axis"""
    n = len(dims)
    out = [("default", None), (None, None)]
    for i, d in enumerate(dims):
        out += [(d, [d]), (i, [d]), (i - n, [d])]
        out += [(["T", d], [d]), (["L", i], [d]), (["T", i - n], [d])]      # a tuple / list of one dimension
    if n >= 2:
        for pair in itertools.permutations(range(n), 2):
            out.append((["T"] + [dims[i] for i in pair], [dims[i] for i in pair]))
        for pair in itertools.combinations(range(n), 2):
            out.append((["L"] + list(pair), [dims[i] for i in pair]))
        out.append((["T"] + list(dims)[::-1], list(dims)))
        if n >= 3:
            out.append((["T", dims[2], 0, dims[1]], list(dims)[:3]))
            for tri in itertools.permutations(range(n), 3):      # every ordered triple (4-d: 24, incl. non-adjacent ones)
                out.append((["T"] + [dims[i] for i in tri], [dims[i] for i in tri]))
    return out


def run_shape(case):
    spec = case["spec"]
    attrs = {"units": "m", "hist": [1, 2], "dtype": "float32", "copy": 0}       # (any key may be metadata, also names of constructor parameters)
    a = core.build(spec, attrs=attrs)
    for i_, ax_ in enumerate(a.axes):        # the axes carry metadata (and numeric ones a tolerance) of their own
        ax_.attrs["long_name"] = "axis %d" % i_
        if ax_.values.dtype.kind in "if" and i_ % 2 == 0:
            ax_.tol = 1e-9
    snap = core.snapshot(a)
    sub = []
    cl = set(["vk:" + spec["vk"]])
    vals = spec["vals"]
    if all(v == "NaN" for v in vals):
        cl.add("nan:all")
    elif any(v == "NaN" for v in vals):
        cl.add("nan:sparse")
    only = case.get("only")
    for name in REDS:
        if name == "ptp" and spec["vk"] == "b":
            continue
        for form, reduced in axis_forms(spec["dims"]):
            for skipna in (False, True):
                if only and [name, form, skipna] != only:
                    continue
                try:
                    nt = check_reduction(a, spec, name, form, reduced, skipna, cl, attrs=attrs)
                except Violation as v:
                    v.case = dict(case, only=[name, form, skipna])
                    raise
                sub.append((core.digest([spec, name, form, skipna]), bool(nt)))
                if form is None or form == "default":
                    cl.add("axis:None")
                elif isinstance(form, str):
                    cl.add("axis:name")
                elif isinstance(form, int):
                    cl.add("axis:pos" if form >= 0 else "axis:negpos")
                else:
                    cl.add("axis:tuple-all" if len(reduced) == len(spec["dims"]) else "axis:tuple")
                    if len(reduced) == 1:
                        cl.add("axis:tuple-of-one")
                if skipna:
                    cl.add("skipna:True")
    core.expect_unchanged(a, snap, "reductions", {"op": "any-reduction"})
    # whole fibre of NaN?
    m = core.model_of_spec(spec)
    return {"classes": sorted(cl), "sub": sub}


# ----------------------------------------------------------------------------------------------
# generated part
# ----------------------------------------------------------------------------------------------

@st.composite
def gen_case(draw, max_dims=4):
    nd = draw(st.integers(1, max_dims))
    spec = draw(gen.array_spec(min_dims=nd, max_dims=nd, min_size=1, max_size=4 if nd < 4 else 3, vks="fffib"))
    ncell = int(np.prod([len(l) for l in spec["labels"]]))
    if spec["vk"] == "f":
        vals = [k / 4.0 for k in draw(st.lists(st.integers(-40, 40), min_size=ncell, max_size=ncell))]
        mode = draw(st.sampled_from(["none", "sparse", "fibre", "all", "sparse"]))
        if mode == "sparse":
            for j in draw(st.lists(st.integers(0, ncell - 1), min_size=1, max_size=max(1, ncell // 2))):
                vals[j] = "NaN"
        elif mode == "fibre":
            # one whole fibre along a random dimension
            ax = draw(st.integers(0, nd - 1))
            shape = [len(l) for l in spec["labels"]]
            fixed = [draw(st.integers(0, s - 1)) for s in shape]
            arr = np.arange(ncell).reshape(shape)
            sl = tuple(slice(None) if i == ax else fixed[i] for i in range(nd))
            for j in np.atleast_1d(arr[sl]).ravel().tolist():
                vals[j] = "NaN"
        elif mode == "all":
            vals = ["NaN"] * ncell
        spec["nanmode"] = mode
        if draw(st.integers(0, 4)) == 0:
            # infinite values are values, not missing values
            for j in draw(st.lists(st.integers(0, ncell - 1), min_size=1, max_size=2, unique=True)):
                if vals[j] != "NaN":
                    vals[j] = draw(st.sampled_from(["inf", "-inf"]))
            spec["inf"] = True
        if draw(st.integers(0, 4)) == 0:
            spec["dtype"] = "float32"           # single precision: the values (k/4) and their sums are exact in it
            if spec.get("hist", {}).get("mode") not in ("none", "warm"):
                spec["hist"] = {"mode": "warm"}
    elif spec["vk"] == "i":
        vals = draw(st.lists(st.integers(-5, 9), min_size=ncell, max_size=ncell))
    else:
        vals = draw(st.lists(st.booleans(), min_size=ncell, max_size=ncell))
    spec["vals"] = vals
    forms = axis_forms(spec["dims"])
    picks = draw(st.lists(st.tuples(st.sampled_from(REDS), st.integers(0, len(forms) - 1), st.booleans()), min_size=3, max_size=8))
    return {"mode": "gen", "spec": spec, "picks": [[n, i, s] for n, i, s in picks]}


@st.composite
def pct_case(draw):
    spec = draw(gen.array_spec(min_dims=1, max_dims=3, min_size=1, max_size=4, vks="ffi"))
    ncell = int(np.prod([len(l) for l in spec["labels"]]))
    spec["vals"] = [k / 4.0 for k in draw(st.lists(st.integers(-40, 40), min_size=ncell, max_size=ncell))] if spec["vk"] == "f" else \
        draw(st.lists(st.integers(-5, 9), min_size=ncell, max_size=ncell))
    ax = draw(st.integers(0, len(spec["dims"]) - 1))
    q = draw(st.one_of(st.sampled_from([0, 25, 50, 75, 100, 10.5]), st.lists(st.sampled_from([0, 5, 25, 50, 90, 100]), min_size=1, max_size=3, unique=True)))
    return {"mode": "pct", "spec": spec, "ax": ax, "axis_form": draw(st.sampled_from(["name", "pos", "default"])), "q": q}


def strategy(tier):
    return st.one_of(gen_case(), gen_case(), gen_case(), pct_case())


def run_gen(case):
    spec = case["spec"]
    attrs = {"units": "m", "hist": [1, 2], "dtype": "float32", "copy": 0}       # (any key may be metadata, also names of constructor parameters)
    a = core.build(spec, attrs=attrs)
    for i_, ax_ in enumerate(a.axes):        # the axes carry metadata (and numeric ones a tolerance) of their own
        ax_.attrs["long_name"] = "axis %d" % i_
        if ax_.values.dtype.kind in "if" and i_ % 2 == 0:
            ax_.tol = 1e-9
    forms = axis_forms(spec["dims"])
    cl = set(["vk:" + spec["vk"]])
    nt = False
    for name, i, skipna in case["picks"]:
        if name == "ptp" and spec["vk"] == "b":
            continue
        if spec.get("dtype") == "float32" and name not in ("sum", "min", "max", "ptp", "any", "all", "median"):
            continue        # (mean / var / std / prod round differently in single precision: only the exact reductions are compared)
        form, reduced = forms[i % len(forms)]
        nt = check_reduction(a, spec, name, form, reduced, skipna, cl, attrs=attrs) or nt
    if spec.get("nanmode") == "fibre":
        cl.add("nan:whole-fibre")
    if spec.get("inf"):
        cl.add("values:inf")
    if spec.get("dtype"):
        cl.add("dtype:float32")
    if any(gen.order_of(l) in ("shuf", "dec") for l in spec["labels"]):
        cl.add("labels:unsorted")
    return {"classes": sorted(cl), "nontrivial": bool(nt)}


def run_pct(case):
    da = core.env.import_dimarray()
    spec, ax, q = case["spec"], case["ax"], case["q"]
    dims, labels = spec["dims"], spec["labels"]
    a = core.build(spec)
    snap = core.snapshot(a)
    m = core.model_of_spec(spec)
    d = dims[ax]
    if case["axis_form"] == "default":
        ax, d = 0, dims[0]
        call = lambda: da.percentile(a, q)
    else:
        call = lambda: da.percentile(a, q, axis=d if case["axis_form"] == "name" else ax)
    remaining = [x for x in dims if x != d]
    fibres = {}
    order = {}
    for coord in m.coords():
        c = dict(zip(dims, coord))
        fibres.setdefault(tuple(c[x] for x in remaining), []).append(float(m.cells[coord]))
    what = "percentile(q=%s, axis=%s/%s) dims=%s labels=%s vals=%s" % (q, d, case["axis_form"], dims, labels, spec["vals"])
    sig = {"op": "percentile"}
    res = lib(call, what=what, sig=sig)
    qs = q if isinstance(q, list) else [q]
    if isinstance(q, list):
        rdims = [d + "_percentile"] + remaining
        rlabels = [list(q)] + [labels[dims.index(x)] for x in remaining]

        def val(c):
            return float(np.percentile(fibres[tuple(core.canon_label(c[x]) for x in remaining)], c[d + "_percentile"]))
        core.expect_array(res, rdims, rlabels, val, what, tol=True, sig=sig)
    elif not remaining:
        check(not isinstance(res, da.DimArray), "scalar-expected", {"what": what, "got": core.brief(res)}, sig)
        check(core.same_scalar(res, float(np.percentile(fibres[()], q)), tol=True), "value", {"what": what, "got": core.jsonable(res)}, sig)
    else:
        def val(c):
            return float(np.percentile(fibres[tuple(core.canon_label(c[x]) for x in remaining)], q))
        core.expect_array(res, remaining, [labels[dims.index(x)] for x in remaining], val, what, tol=True, sig=sig)
    # NumPy's percentile is a floating-point number whatever the data (also the 0th and 100th one of integers)
    npk = np.asarray(np.percentile(core.spec_values(spec), q, axis=ax)).dtype.kind
    gotk = np.asarray(res.values if isinstance(res, da.DimArray) else res).dtype.kind
    check(gotk == npk, "result-dtype-kind", {"what": what, "got": gotk, "numpy": npk}, sig)
    core.expect_unchanged(a, snap, what, sig)
    return {"classes": ["percentile:list" if isinstance(q, list) else "percentile:scalar"] + (["percentile:extreme-of-int-data"] if spec["vk"] == "i" and q in (0, 100) else []),
            "nontrivial": len(dims) >= 2}


def run_case(case):
    return {"shape": run_shape, "gen": run_gen, "pct": run_pct}[case["mode"]](case)
