"""C14 - Dataset-wide operations equal the per-variable operations.

Statement: "Indexing (take, .ix/.loc/.sel/.isel), reductions, take_axis, sort_axis, reindex_axis, interp_axis,
arithmetic and stack_ds/concatenate_ds applied to Datasets give, for every variable that has the affected
dimension, exactly the result of the corresponding DimArray operation on that variable, leave variables without
that dimension unchanged, and return a Dataset that again satisfies the shared-axes rule.  Dataset-level metadata
is carried over by indexing, take_axis, sort_axis, reindex_axis and interp_axis."

Oracle (differential): the same DimArray method applied to each variable; C13's identity invariant on the result.
"""
import numpy as np
from hypothesis import strategies as st

from vlib import core, gen
from vlib.core import lib, check, Violation

ID = "C14"
TITLE = "Dataset-wide operations equal the per-variable operations"
RULE = ("generated Datasets of 1-4 variables over 1-3 of 4 dimensions with partially overlapping dim sets (some variables lack the operated "
        "dimension, some are 0-d), int/float/str labels in any order, dataset- and variable-level attrs; one operation per case: take / "
        ".loc / .sel / .ix / .isel (scalar, list, slice, dict over 1-2 dims), mean/std/var/median/sum(axis name|position), take_axis, "
        "sort_axis, reindex_axis (missing labels, fill, raise_error, method), reindex_like, interp_axis (points inside / outside), "
        "interp_like, ds op scalar, scalar op ds, ds op ds (equal and differing labels), -ds, stack_ds / concatenate_ds of 2-3 datasets "
        "(aligned or align=True).  Non-trivial: >= 2 variables of which >= 1 lacks the operated dimension.")
ASSUMPTIONS = [
    "oracle: the DimArray operation itself, applied per variable (C01-C12, C17, C18 decide those)",
    "ds op ds: both datasets have the same variables over the same dimensions (labels may differ); concatenate_ds: the axis is in every variable (documented)",
    "ds op ds with a variable laid out differently in the second dataset (rotated dims, a 1-d variable along another dim): both datasets then carry "
    "identical labels - with differently ordered labels the per-variable results order a shared dimension differently and no Dataset can hold them "
    "(the library refuses with ValueError; the statement does not cover that combination)",
    "computed values compared with rtol=atol=1e-12, moved values exactly",
]
MANDATORY = ["join:inner", "take:indices-axis-form", "join:unaligned-secondary-labels-refused", "stack_ds:dict", "ds-ds:variable-sets-differ", "ds-ds:variable-named-like-a-dimension", "op:take", "op:loc", "op:sel", "op:ix", "op:isel", "op:reduce", "op:take_axis", "op:sort_axis", "op:reindex_axis", "op:reindex_like",
             "op:interp_axis", "op:interp_like", "op:ds-scalar", "op:scalar-ds", "op:ds-ds", "op:neg", "op:stack_ds", "op:concatenate_ds",
             "var-lacks-dim", "var-0d", "reindex:missing", "interp:outside", "ds-ds:labels-differ", "ds-ds:layout-differs", "join:align=True"]

OPS = ["take", "loc", "sel", "ix", "isel", "reduce", "take_axis", "sort_axis", "reindex_axis", "reindex_like", "interp_axis", "interp_like",
       "ds-scalar", "scalar-ds", "ds-ds", "neg", "stack_ds", "concatenate_ds"]
DS_ATTRS = {"title": "ds", "hist": [1, 2]}


def budget(tier):
    return {"quick": dict(examples=2500, shards=1), "thorough": dict(examples=12000, shards=16)}[tier]


@st.composite
def ds_spec(draw, numeric=False, min_vars=1, all_have=None, square=False):
    kinds = "if" if numeric else "ifs"
    nd = draw(st.integers(1, 3))
    dsdims = list(draw(st.permutations(gen.NAMES)))[:nd]
    n0 = draw(st.integers(2, 3))
    dlabels = {d: draw(gen.labels(n0 if square else draw(st.integers(1, 4)), kinds=kinds)) for d in dsdims}
    nv = draw(st.integers(min_vars, 4))
    out = []
    for i in range(nv):
        k = draw(st.integers(0, len(dsdims)))
        vd = list(draw(st.permutations(dsdims)))[:k]
        if all_have and all_have in dsdims and all_have not in vd:
            vd.append(all_have)
        out.append(["v%d" % i, {"dims": vd, "labels": [dlabels[d] for d in vd], "vk": draw(st.sampled_from("ffi")), "base": 10 * i + draw(st.integers(0, 5)),
                                "attrs": {"units": "u%d" % i, "only_v%d" % i: i}}])
        if out[-1][1]["vk"] == "f" and vd and draw(st.integers(0, 3)) == 0:
            ncell_ = int(np.prod([len(dlabels[d]) for d in vd]))
            if ncell_ >= 2:
                out[-1][1]["nan"] = draw(st.lists(st.integers(0, ncell_ - 1), min_size=1, max_size=max(1, ncell_ // 2), unique=True))      # missing values in some float variables
    # make sure every dataset dim is used (otherwise it is not a dataset dim)
    used = {d for _, s in out for d in s["dims"]}
    dsdims = [d for d in dsdims if d in used]
    return {"vars": out, "attrs": dict(DS_ATTRS)}, dsdims, dlabels


@st.composite
def case_st(draw):
    op = draw(st.sampled_from(OPS + ["ds-ds"]))
    numeric = op in ("interp_axis", "interp_like")
    if op == "concatenate_ds":
        spec, dsdims, dlabels = draw(ds_spec(min_vars=1))
    elif op == "ds-ds":
        spec, dsdims, dlabels = draw(ds_spec(square=draw(st.booleans())))     # square: a positional mix-up stays shape-compatible
    else:
        spec, dsdims, dlabels = draw(ds_spec(numeric=numeric))
    if not dsdims:
        # all variables 0-d: add a 1-d variable so that there is something to operate on
        spec["vars"].append(["vx", {"dims": ["x"], "labels": [[1, 2, 3]], "vk": "f", "base": 70, "attrs": {}}])
        dsdims, dlabels = ["x"], {"x": [1, 2, 3]}
    d = draw(st.sampled_from(dsdims))
    labs = dlabels[d]
    kind = core.label_kind(labs)
    p = {}
    if op in ("take", "loc", "sel", "ix", "isel"):
        nidx = draw(st.integers(1, min(2, len(dsdims))))
        idims = list(draw(st.permutations(dsdims)))[:nidx]
        idx = {}
        for dd in idims:
            l = dlabels[dd]
            form = draw(st.sampled_from(["scalar", "list", "slice"]))
            if op in ("ix", "isel"):
                n = len(l)
                idx[dd] = {"scalar": draw(st.integers(-n, n - 1)), "list": draw(gen.position_list(n, 1, 3)),
                           "slice": ["slice", draw(st.sampled_from([None, 0, 1, n - 1])), draw(st.sampled_from([None, 1, 2, -1, 0])), draw(st.sampled_from([None, None, 2, -1, -2]))]}[form]
            else:
                idx[dd] = {"scalar": draw(st.sampled_from(l)), "list": draw(st.lists(st.sampled_from(l), min_size=1, max_size=3)),
                           "slice": ["slice", draw(st.sampled_from([None] + l)), draw(st.sampled_from([None] + l)), draw(st.sampled_from([None, None, 2, -1, -2]))]}[form]
        p = {"idx": idx, "keepdims": draw(st.sampled_from([False, False, True])) if op == "take" else False}
    elif op == "reduce":
        p = {"f": draw(st.sampled_from(["mean", "std", "var", "median", "sum"])), "by": draw(st.sampled_from(["name", "pos"])),
             "skipna": draw(st.booleans())}
    elif op == "take_axis":
        n = len(labs)
        if draw(st.booleans()):
            p = {"indices": draw(st.lists(st.sampled_from(labs), min_size=1, max_size=4)), "indexing": "label"}
        else:
            p = {"indices": draw(gen.position_list(n, 1, 4)), "indexing": "position"}
            if draw(st.integers(0, 2)) == 0:
                # numpy.take's modes: positions beyond either end are clipped or wrapped (negative ones included)
                p["mode"] = draw(st.sampled_from(["clip", "wrap"]))
                p["indices"] = draw(st.lists(st.integers(-n - 2, n + 2), min_size=1, max_size=4))
        p["by"] = draw(st.sampled_from(["name", "pos"]))
    elif op == "sort_axis":
        p = {"by": draw(st.sampled_from(["name", "pos"]))}
    elif op == "reindex_axis":
        rel, new = draw(gen.related_labels(labs, kind, relation=draw(st.sampled_from(["permuted", "subset", "superset", "overlapping", "disjoint", "equal", "interior", "inner-permuted"]))))
        method = draw(st.sampled_from([None, None, None, "left", "right"]))
        if kind == "i" and draw(st.integers(0, 3)) == 0:
            new = [float(x) for x in new]       # the labels of an integer axis requested as floats
        if kind == "s" and draw(st.integers(0, 2)) == 0:
            # absent labels that are proper prefixes of existing ones ('run1' next to 'run10'), shorter than every label that is asked for besides
            pre = [x[:-1] for x in labs if len(x) >= 2 and x[:-1] not in labs and x[:-1] not in new]
            if pre:
                new = list(dict.fromkeys(pre[:2])) + [x for x in new if len(x) <= len(pre[0])][:1]
        p = {"new": new, "fill": draw(st.sampled_from(["nan", "nan", -1, 0])), "raise_error": draw(st.sampled_from([False, False, True])) if method is None else False,
             "method": method, "as": draw(st.sampled_from(["list", "axis"])), "by": draw(st.sampled_from(["name", "pos"]))}
    elif op == "reindex_like":
        tl = {}
        for dd in dsdims:
            if draw(st.booleans()):
                tl[dd] = draw(gen.related_labels(dlabels[dd], core.label_kind(dlabels[dd])))[1]
        p = {"template": tl}
    elif op in ("interp_axis", "interp_like"):
        lo, hi = min(labs), max(labs)
        pts = draw(st.lists(st.sampled_from([lo - 1, lo, hi, hi + 1.5, (lo + hi) / 2.0, lo + 0.25, hi - 0.25] + [float(x) for x in labs]), min_size=1, max_size=4, unique=True))
        p = {"new": [float(x) for x in pts], "left": draw(st.sampled_from(["nan", -5.0, 0])), "right": draw(st.sampled_from(["nan", 99.0, 0.0])), "by": draw(st.sampled_from(["name", "pos"]))}
    elif op in ("ds-scalar", "scalar-ds"):
        p = {"sym": draw(st.sampled_from(["+", "-", "*", "/"])), "s": draw(st.sampled_from([2, 2.5]))}
    elif op == "ds-ds":
        # same variables / dims, labels possibly different on some dimensions
        other = {}
        for dd in dsdims:
            if draw(st.booleans()):
                other[dd] = draw(gen.related_labels(dlabels[dd], core.label_kind(dlabels[dd])))[1]
        # ... and, in some cases, variables laid out differently in the second dataset (rotated dims; a 1-d variable along another dim)
        layout = {}
        if draw(st.booleans()):
            keep_first = draw(st.booleans())      # an unchanged first N-d variable keeps the dataset-level dimension order equal in both
            for vi, (name, vs) in enumerate(spec["vars"]):
                if keep_first and len(vs["dims"]) >= 2 and not any(len(v2["dims"]) >= 2 for _, v2 in spec["vars"][:vi]):
                    continue
                if len(vs["dims"]) >= 2 and draw(st.booleans()):
                    k = draw(st.integers(1, len(vs["dims"]) - 1))
                    layout[name] = vs["dims"][k:] + vs["dims"][:k]
                elif len(vs["dims"]) == 1 and len(dsdims) >= 2 and draw(st.integers(0, 3)) == 0:
                    layout[name] = [draw(st.sampled_from([dd for dd in dsdims if dd != vs["dims"][0]]))]
        if layout:
            other = {}      # (see ASSUMPTIONS: differently ordered labels + different layouts give per-variable results no Dataset can hold)
        p = {"sym": draw(st.sampled_from(["+", "-", "*"])), "other_labels": other, "layout": layout}
        if not layout and draw(st.integers(0, 2)) == 0:
            # the two datasets hold different sets of variables (documented: the result holds the variables found in both); a variable may
            # carry the name of a dimension (a coordinate-like variable), in one or in both datasets
            cands = [i for i, (_, vs) in enumerate(spec["vars"]) if vs["dims"]]
            if cands and draw(st.booleans()):
                i = draw(st.sampled_from(cands))
                spec["vars"][i][0] = draw(st.sampled_from(spec["vars"][i][1]["dims"]))
            names = [n for n, _ in spec["vars"]]
            p["drop2"] = draw(st.lists(st.sampled_from(names), max_size=len(names) - 1, unique=True)) if len(names) > 1 else draw(st.sampled_from([[], list(names)]))
            p["extra2"] = draw(st.sampled_from([None, "first", "last"]))
    elif op in ("stack_ds", "concatenate_ds"):
        n = draw(st.integers(2, 3))
        others = []
        align = draw(st.booleans())
        for j in range(n - 1):
            o = {}
            for dd in dsdims:
                if op == "concatenate_ds" and dd == d:
                    o[dd] = draw(gen.related_labels(dlabels[dd], core.label_kind(dlabels[dd]), relation="disjoint"))[1]
                elif align and draw(st.booleans()):
                    o[dd] = draw(gen.related_labels(dlabels[dd], core.label_kind(dlabels[dd]), relation=draw(st.sampled_from(["permuted", "overlapping", "subset"]))))[1]
                elif not align and len(dlabels[dd]) >= 2 and draw(st.integers(0, 5)) == 0:
                    o[dd] = list(dlabels[dd][::-1])      # without alignment: the same labels in another order on a secondary dimension must be refused
            others.append(o)
        p = {"others": others, "align": align, "keys": draw(st.sampled_from([None, "str", "dict", "dict-int"])) if op == "stack_ds" else None, "sort": draw(st.booleans()) if align else False,
             "reorder": draw(st.booleans()),        # the later datasets hold the same variables, inserted in another order
             "join": draw(st.sampled_from([None, None, "inner"])) if align else None}
    pre = draw(st.sampled_from(["none", "none", "warm", "derive-take", "derive-reindex", "derive-take", "derive-sort", "reinsert-first", "rename-first-key"]))
    if op == "ds-ds" and p.get("layout"):
        pre = "warm" if pre != "none" else "none"
    perm = list(draw(st.permutations(list(range(len(labs))))))
    return {"op": op, "ds": spec, "dsdims": dsdims, "dim": d, "p": p, "pre": pre, "perm": perm}


def strategy(tier):
    return case_st()


def enumerate_cases(tier):
    """axis given as a *dataset-level position* while variables hold that dimension at another position (or not at all):
    every along-axis operation x both dimensions x square / non-square variables"""
    for lx, ly in (([3, 1, 2], [0.5, 2.5, 1.5]), ([3, 1], [0.5, 2.5, 1.5])):
        dlab = {"x": lx, "y": ly}
        variables = [["v0", {"dims": ["x", "y"], "labels": [lx, ly], "vk": "f", "base": 0, "attrs": {"units": "a"}}],
                     ["v1", {"dims": ["y", "x"], "labels": [ly, lx], "vk": "f", "base": 20, "attrs": {"units": "b"}}],
                     ["v2", {"dims": ["y"], "labels": [ly], "vk": "i", "base": 40, "attrs": {}}],
                     ["v3", {"dims": [], "labels": [], "vk": "f", "base": 50, "attrs": {}}],
                     ["v4", {"dims": ["x"], "labels": [lx], "vk": "f", "base": 60, "attrs": {}, "nan": [0]}]]       # (a float variable with a NaN AFTER the integer one)
        ds = {"vars": variables, "attrs": dict(DS_ATTRS)}
        for d in ("x", "y"):
            labs = dlab[d]
            for by in ("pos", "name"):
                ps = [("reduce", {"f": f, "by": by, "skipna": sk}) for f in ("mean", "std", "var", "median", "sum") for sk in (False, True)]
                ps += [("take_axis", {"indices": [labs[-1], labs[0]], "indexing": "label", "by": by}), ("take_axis", {"indices": [1, 0, 1], "indexing": "position", "by": by}),
                       ("take_axis", {"indices": [-1, 0, 9], "indexing": "position", "by": by, "mode": "clip"}),
                       ("take_axis", {"indices": [-4, 1, 5], "indexing": "position", "by": by, "mode": "wrap"}),
                       ("sort_axis", {"by": by}),
                       ("reindex_axis", {"new": [labs[1], labs[0] + 100, labs[0]], "fill": "nan", "raise_error": False, "method": None, "as": "list", "by": by}),
                       ("reindex_axis", {"new": [labs[0], labs[1] + 100] + list(labs[2:]), "fill": "nan", "raise_error": False, "method": None, "as": "list", "by": by}),
                       ("reindex_axis", {"new": [labs[1], labs[0] + 100], "fill": -1, "raise_error": False, "method": None, "as": "axis", "by": by}),
                       ("reindex_axis", {"new": [labs[0] + 0.25, labs[1]], "fill": "nan", "raise_error": False, "method": "left", "as": "list", "by": by}),
                       ("reindex_axis", {"new": list(labs[::-1]), "fill": "nan", "raise_error": True, "method": None, "as": "list", "by": by}),
                       ("interp_axis", {"new": [min(labs) - 1.0, float(labs[0]), (min(labs) + max(labs)) / 2.0, max(labs) + 1.0], "left": "nan", "right": 99.0, "by": by})]
                for op, p in ps:
                    yield "axis-by-dataset-position-grid", {"op": op, "ds": ds, "dsdims": ["x", "y"], "dim": d, "p": p}
    # joining datasets over three dimensions with align=True: which secondary dimensions of the later datasets differ (y, z, both) x how
    lab = {"x": [3, 1], "y": [0.5, 2.5, 1.5], "z": ["b", "c", "a"]}
    rel = {"permuted": {"y": [1.5, 0.5, 2.5], "z": ["a", "b", "c"]}, "overlapping": {"y": [2.5, 7.5], "z": ["c", "q"]}, "interior": {"y": [0.5, 9.5, 1.5], "z": ["b", "m", "a"]}}
    variables = [["v0", {"dims": ["x", "y", "z"], "labels": [lab["x"], lab["y"], lab["z"]], "vk": "f", "base": 0, "attrs": {}}],
                 ["v1", {"dims": ["z", "x"], "labels": [lab["z"], lab["x"]], "vk": "i", "base": 40, "attrs": {}}],
                 ["v2", {"dims": ["x", "y"], "labels": [lab["x"], lab["y"]], "vk": "f", "base": 60, "attrs": {}}]]
    ds3 = {"vars": variables, "attrs": dict(DS_ATTRS)}
    for which in (("y",), ("z",), ("y", "z")):
        for r in rel:
            for op in ("stack_ds", "concatenate_ds"):
                for sort in (False, True):
                    for n in (2, 3):
                        others = []
                        for j in range(n - 1):
                            o = {d: list(rel[r if j == 0 else "permuted"][d]) for d in which}
                            if op == "concatenate_ds":
                                o["x"] = [10 * (j + 1) + 1, 10 * (j + 1)]
                            others.append(o)
                        yield "join-align-grid", {"op": op, "ds": ds3, "dsdims": ["x", "y", "z"], "dim": "x",
                                                  "p": {"others": others, "align": True, "keys": None, "sort": sort, "reorder": n == 3}}
                        if r == "overlapping":
                            yield "join-align-grid", {"op": op, "ds": ds3, "dsdims": ["x", "y", "z"], "dim": "x",
                                                      "p": {"others": others, "align": True, "keys": None, "sort": sort, "reorder": False, "join": "inner"}}
    # identical (unsorted) axes in every dataset with align=True, sort=True: nothing to align, but the sorting still applies
    for op in ("stack_ds", "concatenate_ds"):
        for n in (2, 3):
            others = [({"x": [10 * (j + 1) + 1, 10 * (j + 1)]} if op == "concatenate_ds" else {}) for j in range(n - 1)]
            for sort in (True, False):
                yield "join-align-grid", {"op": op, "ds": ds3, "dsdims": ["x", "y", "z"], "dim": "x", "p": {"others": others, "align": True, "keys": None, "sort": sort, "reorder": False}}
    # the same variables inserted in another order in the later datasets (variables are matched by name), without alignment
    two = {"vars": [["v0", {"dims": ["x"], "labels": [[3, 1]], "vk": "f", "base": 0, "attrs": {}}], ["v1", {"dims": ["x"], "labels": [[3, 1]], "vk": "f", "base": 40, "attrs": {}}],
                    ["v2", {"dims": ["x", "y"], "labels": [[3, 1], ["a", "b"]], "vk": "i", "base": 70, "attrs": {}}]], "attrs": dict(DS_ATTRS)}
    for op in ("stack_ds", "concatenate_ds"):
        for n in (2, 3):
            others = [({"x": [10 * (j + 1) + 1, 10 * (j + 1)]} if op == "concatenate_ds" else {}) for j in range(n - 1)]
            yield "join-align-grid", {"op": op, "ds": two, "dsdims": ["x", "y"], "dim": "x", "p": {"others": others, "align": False, "keys": None, "sort": False, "reorder": True}}
    # ... and without alignment where a later dataset carries a secondary dimension in another order, a dimension that the FIRST variables do not have
    for op in ("stack_ds", "concatenate_ds"):
        for n in (2, 3):
            for which in range(n - 1):
                others = [dict(({"x": [10 * (j + 1) + 1, 10 * (j + 1)]} if op == "concatenate_ds" else {}), **({"y": ["b", "a"]} if j == which else {})) for j in range(n - 1)]
                yield "join-align-grid", {"op": op, "ds": two, "dsdims": ["x", "y"], "dim": "x", "p": {"others": others, "align": False, "keys": None, "sort": False, "reorder": False}}
    # Dataset op Dataset where a variable is laid out differently in the second dataset: square shapes x every subset of
    # {2-d variable transposed, 1-d variable along the other dimension} x which variable comes first x operator
    for labs in ([3, 1, 2], [1, 2], ["b", "a"]):
        for first in ("v0", "v1"):
            v0 = ["v0", {"dims": ["x", "y"], "labels": [labs, labs], "vk": "f", "base": 0, "attrs": {}}]
            v1 = ["v1", {"dims": ["x", "y"], "labels": [labs, labs], "vk": "f", "base": 20, "attrs": {}}]
            v2 = ["v2", {"dims": ["x"], "labels": [labs], "vk": "f", "base": 40, "attrs": {}}]
            v3 = ["v3", {"dims": ["y", "x"], "labels": [labs, labs], "vk": "i", "base": 60, "attrs": {}}]
            ds = {"vars": [v0, v1, v2, v3] if first == "v0" else [v1, v0, v2, v3], "attrs": dict(DS_ATTRS)}
            for mask in range(1, 8):
                layout = {}
                if mask & 1:
                    layout["v1"] = ["y", "x"]
                if mask & 2:
                    layout["v2"] = ["y"]
                if mask & 4:
                    layout["v3"] = ["x", "y"]
                for sym in ("+", "-", "*"):
                    yield "ds-ds-layout-grid", {"op": "ds-ds", "ds": ds, "dsdims": ["x", "y"], "dim": "x",
                                                "p": {"sym": sym, "other_labels": {}, "layout": layout}}

    # Dataset op Dataset where the two hold different sets of variables, one of them named like a dimension: every subset of the
    # variables in the second dataset x an extra variable there x operator
    vs = [["x", {"dims": ["x"], "labels": [[3, 1, 2]], "vk": "f", "base": 0, "attrs": {}}], ["v1", {"dims": ["x", "y"], "labels": [[3, 1, 2], ["b", "a"]], "vk": "f", "base": 20, "attrs": {}}],
          ["y", {"dims": ["y"], "labels": [["b", "a"]], "vk": "i", "base": 40, "attrs": {}}]]
    for mask in range(8):
        for extra in (None, "first", "last"):
            for sym in ("+", "-", "*"):
                yield "ds-ds-variable-sets-grid", {"op": "ds-ds", "ds": {"vars": vs, "attrs": dict(DS_ATTRS)}, "dsdims": ["x", "y"], "dim": "x",
                                                   "p": {"sym": sym, "other_labels": {}, "layout": {}, "drop2": [vs[i][0] for i in range(3) if mask & (1 << i)], "extra2": extra}}

    # ... where a common variable has a dimension in one dataset only (it is broadcast) while in the other dataset that dimension belongs
    # to a variable that is NOT common and carries other labels: each common variable is combined with its namesake alone
    V = lambda name, dims_, labs, base: [name, {"dims": dims_, "labels": labs, "vk": "f", "base": base, "attrs": {}}]
    pairs = [([V("k", ["x"], [[3, 1, 2]], 0), V("m", ["y"], [["u", "v"]], 20)], [V("k", ["x", "y"], [[3, 1, 2], ["v", "w"]], 40)]),
             ([V("k", ["x", "y"], [[3, 1, 2], ["v", "w"]], 40)], [V("k", ["x"], [[3, 1, 2]], 0), V("m", ["y"], [["u", "v"]], 20)]),
             ([V("k", ["x"], [[3, 1]], 0), V("m", ["y"], [[1, 2]], 20), V("n", ["z"], [[0.5]], 30)], [V("n", ["z"], [[0.5]], 60), V("k", ["y", "x"], [[2, 3], [3, 1]], 40)]),
             ([V("k", ["x"], [[3, 1]], 0), V("m", ["x", "y"], [[3, 1], [1, 2]], 20)], [V("k", ["x"], [[1, 5]], 40), V("q", ["y"], [[7, 8, 9]], 70)])]
    for v1, v2 in pairs:
        for sym in ("+", "-", "*"):
            yield "ds-ds-variable-sets-grid", {"op": "ds-ds", "ds": {"vars": v1, "attrs": dict(DS_ATTRS)}, "dsdims": ["x"], "dim": "x",
                                               "p": {"sym": sym, "other_labels": {}, "layout": {}, "ds2": {"vars": v2, "attrs": {}}}}


# ----------------------------------------------------------------------------------------------

def relabel(spec, newlabels, layout=None, dlabels=None):
    """a dataset spec with the same variables over the same dims but other labels on some dims (and, with `layout`, some
    variables over the listed dims instead of their own)"""
    out = {"vars": [], "attrs": dict(spec.get("attrs", {}))}
    for name, s in spec["vars"]:
        s2 = dict(s)
        if layout and name in layout:
            own = dict(zip(s["dims"], s["labels"]))
            s2["dims"] = list(layout[name])
            s2["labels"] = [list(newlabels.get(d, own.get(d, (dlabels or {}).get(d)))) for d in s2["dims"]]
            s2.pop("hist", None)
        else:
            s2["labels"] = [list(newlabels.get(d, l)) for d, l in zip(s["dims"], s["labels"])]
        s2["base"] = s.get("base", 0) + 100
        out["vars"].append([name, s2])
    return out


def py(idx):
    if isinstance(idx, list) and idx and idx[0] == "slice":
        return slice(idx[1], idx[2], idx[3])
    return idx


def same_var(got, exp, what, sig, attrs=True):
    da = core.env.import_dimarray()
    if not isinstance(exp, da.DimArray):
        check(isinstance(got, da.DimArray) and got.ndim == 0, "variable-should-be-0d", {"what": what, "got": core.brief(got)}, sig)
        check(core.same_scalar(got.values.item(), exp, tol=True), "variable-value", {"what": what, "got": core.jsonable(got.values), "expected": core.jsonable(exp)}, sig)
        return
    core.expect_equal_arrays(got, exp, what, tol=True, sig=sig)
    # "exactly the result of the corresponding DimArray operation": also the kind of the labels (integer / float / str) and of the values
    kk = lambda dt: "s" if dt.kind in "OUS" else dt.kind
    for i, d_ in enumerate(exp.dims):
        check(kk(got.axes[i].values.dtype) == kk(exp.axes[i].values.dtype), "label-kind", {"what": what, "dim": d_, "dataset_level": str(got.axes[i].values.dtype),
                                                                                             "per_variable": str(exp.axes[i].values.dtype)}, sig)
    check(kk(got.values.dtype) == kk(exp.values.dtype), "value-kind", {"what": what, "dataset_level": str(got.values.dtype), "per_variable": str(exp.values.dtype)}, sig)
    if attrs:
        check(core.attrs_equal(got.attrs, exp.attrs), "variable-attrs", {"what": what, "got": core.jsonable(got.attrs), "expected": core.jsonable(exp.attrs)}, sig)


def check_result(res, expected, what, sig, ds_attrs=None, attrs=True):
    """expected: ordered list of (name, DimArray or scalar)"""
    da = core.env.import_dimarray()
    check(isinstance(res, da.Dataset), "not-a-dataset", {"what": what, "got": repr(type(res))}, sig)
    check(list(res.keys()) == [k for k, _ in expected], "keys", {"what": what, "got": list(res.keys()), "expected": [k for k, _ in expected]}, sig)
    for k, e in expected:
        same_var(res[k], e, what + " var " + k, sig, attrs=attrs)
    used = core.check_shared_axes(res, what, sig)
    check(sorted(res.dims) == sorted(used), "dataset-dims-not-union", {"what": what, "dims": list(res.dims), "used": used}, sig)
    if ds_attrs is not None:
        check(core.attrs_equal(res.attrs, ds_attrs), "dataset-attrs-not-carried", {"what": what, "got": core.jsonable(res.attrs), "expected": ds_attrs}, sig)


def run_case(case):
    da = core.env.import_dimarray()
    op, d, p = case["op"], case["dim"], case["p"]
    ds = core.build_dataset(case["ds"])
    pre = case.get("pre", "none")
    if op in ("stack_ds", "concatenate_ds") and pre.startswith("derive"):
        pre = "warm"        # the other datasets of a join are built from the original label order
    if pre != "none" and d in ds.dims:
        # a history on the dataset itself: queries that fill caches, optionally followed by a dataset-level take_axis /
        # reindex_axis onto the same labels in their stored order (an identity as far as values, labels and dims go)
        for ax in ds.axes:
            core.warm(da.DimArray(np.zeros(ax.size), axes=[ax]), da)      # queries on the dataset's own Axis objects
        # ... optionally followed by a dataset-level operation that reorders the axis; the dataset under test is then the
        # *result* of that operation (the per-variable expectation is computed on freshly rebuilt copies of its variables)
        perm = [i for i in case.get("perm", []) if i < ds.axes[d].size] or list(range(ds.axes[d].size))
        if pre == "derive-take":
            ds = lib(lambda: ds.take_axis(list(perm), axis=d, indexing="position"), what="pre-history take_axis(permutation)", sig={"op": "pre"})
        elif pre == "derive-reindex":
            ds = lib(lambda: ds.reindex_axis(ds.axes[d].values[perm].copy(), axis=d), what="pre-history reindex_axis(permuted own labels)", sig={"op": "pre"})
        elif pre == "derive-sort":
            ds = lib(lambda: ds.sort_axis(axis=d), what="pre-history sort_axis", sig={"op": "pre"})
    if pre in ("reinsert-first", "rename-first-key") and len(ds.keys()) >= 1 and op not in ("stack_ds", "concatenate_ds", "ds-ds"):
        # in-place changes of the dataset itself before the operation: the first variable is taken out and put back (it is the last one
        # then, and the axes only it had are re-created at the end), or its key is renamed in place
        k0 = list(ds.keys())[0]
        if pre == "reinsert-first":
            v0 = ds[k0]
            lib(lambda: ds.__delitem__(k0), what="pre-history del ds[first]", sig={"op": "pre"})
            lib(lambda: ds.__setitem__(k0, v0), what="pre-history ds[first] = same array", sig={"op": "pre"})
        else:
            lib(lambda: ds.rename_keys({k0: k0 + "_r"}, inplace=True), what="pre-history rename_keys in place", sig={"op": "pre"})
        core.check_shared_axes(ds, "dataset after the pre-history", {"op": "pre"})
    snap = core.snapshot_dataset(ds)

    class _Fresh(object):
        """per-variable operand rebuilt from values, labels, dims and attrs: the oracle must not share cached state
        with the dataset under test"""
        def __getitem__(self, k):
            v = ds[k]
            t = da.DimArray(np.array(v.values, copy=True), axes=[da.Axis(ax.values.copy(), ax.name) for ax in v.axes])
            t.attrs.update(v.attrs)
            for ax_t, ax_v in zip(t.axes, v.axes):
                ax_t.attrs.update(ax_v.attrs)
            return t
    fresh = _Fresh()
    dsdims = list(ds.dims)
    keys = list(ds.keys())
    has = [k for k in keys if d in ds[k].dims]
    lacks = [k for k in keys if d not in ds[k].dims]
    cl = set(["op:" + op])
    if lacks and has:
        cl.add("var-lacks-dim")
    if any(ds[k].ndim == 0 for k in keys):
        cl.add("var-0d")
    sig = {"op": op}
    what = "%s %s on %s dim=%s" % (op, core.jsonable(p), core.jsonable([[n, s["dims"], s["labels"]] for n, s in case["ds"]["vars"]]), d)
    axis_arg = d if p.get("by", "name") == "name" else dsdims.index(d)
    nontrivial = len(keys) >= 2 and bool(lacks) and bool(has)

    if op in ("take", "loc", "sel", "ix", "isel"):
        idx = {k: py(v) for k, v in p["idx"].items()}
        indexing = "position" if op in ("ix", "isel") else "label"
        kw = {"keepdims": True} if p.get("keepdims") else {}
        idx_arg = dict(idx)     # the mapping handed to the dataset is an argument: it comes back as it was
        call = {"take": lambda: ds.take(indices=idx_arg, **kw), "loc": lambda: ds.loc[idx_arg], "sel": lambda: ds.sel(**idx),
                "ix": lambda: ds.ix[idx_arg], "isel": lambda: ds.isel(**idx)}[op]
        expected = []
        for k in keys:
            sub = {dd: i for dd, i in idx.items() if dd in ds[k].dims}
            expected.append((k, lib(lambda: fresh[k].take(dict(sub), indexing=indexing, **kw) if sub or True else ds[k], what="per-variable " + what, sig=sig)))
        res = lib(call, what=what, sig=sig)
        check(list(idx_arg.keys()) == list(idx.keys()) and all(idx_arg[k_] is idx[k_] for k_ in idx), "index-mapping-modified", {"what": what, "now": core.jsonable(list(idx_arg.keys()))}, sig)
        check_result(res, expected, what, sig, ds_attrs=DS_ATTRS)
        if op in ("ix", "isel"):
            # positions with keepdims=True: a scalar position keeps its dimension with one label, in every variable and in the dataset
            exp_k = []
            for k in keys:
                sub = {dd: i for dd, i in idx.items() if dd in ds[k].dims}
                exp_k.append((k, lib(lambda: fresh[k].take(dict(sub), indexing="position", keepdims=True), what="per-variable " + what + " [keepdims]", sig=sig)))
            res_k = lib(lambda: ds.take(indices=idx_arg, indexing="position", keepdims=True), what=what + " [take(indexing='position', keepdims=True)]", sig=sig)
            check_result(res_k, exp_k, what + " [take(indexing='position', keepdims=True)]", sig, ds_attrs=DS_ATTRS)
            cl.add("take:position-keepdims")
        if len(idx) == 1 and op in ("take", "ix", "isel"):
            # the (indices, axis) call form: axis by name, by position in the dataset, by negative position
            (d1, i1), = idx.items()
            for axform, axarg in (("name", d1), ("position", dsdims.index(d1)), ("negative position", dsdims.index(d1) - len(dsdims))):
                res2 = lib(lambda: ds.take(indices=i1, axis=axarg, indexing=indexing, **kw), what=what + " [take(indices=i, axis=%s)]" % axform, sig=sig)
                check_result(res2, expected, what + " [take(indices=i, axis=%s)]" % axform, sig, ds_attrs=DS_ATTRS)
            cl.add("take:indices-axis-form")
        nontrivial = len(keys) >= 2 and any(any(dd not in ds[k].dims for dd in idx) for k in keys)
        if nontrivial:
            cl.add("var-lacks-dim")
    elif op == "reduce":
        kw = {"skipna": True} if p["skipna"] else {}
        expected = [(k, lib(lambda: getattr(fresh[k], p["f"])(axis=d, **kw), what="per-variable " + what, sig=sig) if k in has else ds[k]) for k in keys]
        res = lib(lambda: getattr(ds, p["f"])(axis=axis_arg, **kw), what=what, sig=sig)
        check_result(res, expected, what, sig)
    elif op == "take_axis":
        kwm = {"mode": p["mode"]} if p.get("mode") else {}
        if kwm:
            cl.add("take_axis:mode")
        expected = [(k, lib(lambda: fresh[k].take_axis(list(p["indices"]), axis=d, indexing=p["indexing"], **kwm), what="per-variable " + what, sig=sig) if k in has else ds[k]) for k in keys]
        res = lib(lambda: ds.take_axis(list(p["indices"]), axis=axis_arg, indexing=p["indexing"], **kwm), what=what, sig=sig)
        check_result(res, expected, what, sig, ds_attrs=DS_ATTRS)
        # the documented parameter order (indices, axis, indexing, mode), arguments given by position
        res = lib(lambda: ds.take_axis(list(p["indices"]), axis_arg, p["indexing"], *([p["mode"]] if p.get("mode") else [])), what=what + " [arguments by position]", sig=sig)
        check_result(res, expected, what + " [arguments by position]", sig, ds_attrs=DS_ATTRS)
    elif op == "sort_axis":
        expected = [(k, lib(lambda: fresh[k].sort_axis(axis=d), what="per-variable " + what, sig=sig) if k in has else ds[k]) for k in keys]
        res = lib(lambda: ds.sort_axis(axis=axis_arg), what=what, sig=sig)
        check_result(res, expected, what, sig, ds_attrs=DS_ATTRS)
    elif op == "reindex_axis":
        new = p["new"]
        labs = ds.axes[d].values.tolist()
        missing = any(core.canon_label(x) not in [core.canon_label(y) for y in labs] for x in new)
        if missing:
            cl.add("reindex:missing")
        kw = {}
        if p["fill"] != "nan":
            kw["fill_value"] = p["fill"]
        if p["method"]:
            kw["method"] = p["method"]
            cl.add("reindex:method")
        newobj = (lambda: da.Axis(core.label_array(new), d)) if p["as"] == "axis" else (lambda: list(new))
        if p["raise_error"] and missing:
            core.must_raise(lambda: ds.reindex_axis(newobj(), axis=axis_arg, raise_error=True, **kw), (IndexError,), what, sig=sig)
        else:
            if p["raise_error"]:
                kw["raise_error"] = True
            expected = [(k, lib(lambda: fresh[k].reindex_axis(newobj(), axis=d, **kw), what="per-variable " + what, sig=sig) if k in has else ds[k]) for k in keys]
            res = lib(lambda: ds.reindex_axis(newobj(), axis=axis_arg, **kw), what=what, sig=sig)
            check_result(res, expected, what, sig, ds_attrs=DS_ATTRS)
            check(core.same_labels(res.axes[d].values, new), "dataset-axis", {"what": what, "got": core.jsonable(res.axes[d].values), "expected": new}, sig)
    elif op == "reindex_like":
        tl = p["template"]
        t = da.Axes([da.Axis(core.label_array(l), dd) for dd, l in tl.items()])
        expected = [(k, lib(lambda: fresh[k].reindex_like(t), what="per-variable " + what, sig=sig)) for k in keys]
        res = lib(lambda: ds.reindex_like(t), what=what, sig=sig)
        check_result(res, expected, what, sig)
        nontrivial = len(keys) >= 2 and any(any(dd not in ds[k].dims for dd in tl) for k in keys)
    elif op in ("interp_axis", "interp_like"):
        new = p["new"]
        kw = {}
        if p["left"] != "nan":
            kw["left"] = p["left"]
        if p["right"] != "nan":
            kw["right"] = p["right"]
        labs = ds.axes[d].values.tolist()
        new = core.snap_to_nodes(new, labs)
        if any(x < min(labs) or x > max(labs) for x in new):
            cl.add("interp:outside")
        if op == "interp_axis":
            expected = [(k, lib(lambda: fresh[k].interp_axis(list(new), axis=d, **kw), what="per-variable " + what, sig=sig) if k in has else ds[k]) for k in keys]
            res = lib(lambda: ds.interp_axis(list(new), axis=axis_arg, **kw), what=what, sig=sig)
            check_result(res, expected, what, sig, ds_attrs=DS_ATTRS)
        else:
            t = da.Axes([da.Axis(np.array(new, dtype=float), d)])
            expected = [(k, lib(lambda: fresh[k].interp_like(t, **kw), what="per-variable " + what, sig=sig)) for k in keys]
            res = lib(lambda: ds.interp_like(t, **kw), what=what, sig=sig)
            check_result(res, expected, what, sig)
        if d in res.dims:
            check(core.same_labels(res.axes[d].values, new), "dataset-axis", {"what": what, "got": core.jsonable(res.axes[d].values), "expected": new}, sig)
    elif op in ("ds-scalar", "scalar-ds", "neg"):
        import operator
        f = {"+": operator.add, "-": operator.sub, "*": operator.mul, "/": operator.truediv}.get(p.get("sym"))
        if op == "neg":
            expected = [(k, -fresh[k]) for k in keys]
            res = lib(lambda: -ds, what=what, sig=sig)
        elif op == "ds-scalar":
            expected = [(k, f(fresh[k], p["s"])) for k in keys]
            res = lib(lambda: f(ds, p["s"]), what=what, sig=sig)
        else:
            expected = [(k, f(p["s"], fresh[k])) for k in keys]
            res = lib(lambda: f(p["s"], ds), what=what, sig=sig)
        check_result(res, expected, what, sig, attrs=False)
        nontrivial = len(keys) >= 2
    elif op == "ds-ds":
        import operator
        f = {"+": operator.add, "-": operator.sub, "*": operator.mul}[p["sym"]]
        dlab = {dd: l for _, vs in case["ds"]["vars"] for dd, l in zip(vs["dims"], vs["labels"])}
        ds2 = core.build_dataset(relabel(case["ds"], p["other_labels"], p.get("layout"), dlab))
        if p.get("layout"):
            cl.add("ds-ds:layout-differs")
        if "ds2" in p:
            ds2 = core.build_dataset(p["ds2"])
            keys = [k for k in keys if k in ds2.keys()]
            cl.add("ds-ds:variable-sets-differ")
        if "drop2" in p:
            sp2 = relabel(case["ds"], p["other_labels"], p.get("layout"), dlab)
            sp2["vars"] = [[n, vs] for n, vs in sp2["vars"] if n not in p["drop2"]]
            extra = ["w9", {"dims": [d], "labels": [list(p["other_labels"].get(d, dlab[d]))], "vk": "f", "base": 500}]
            if p.get("extra2"):
                sp2["vars"] = [extra] + sp2["vars"] if p["extra2"] == "first" else sp2["vars"] + [extra]
            ds2 = core.build_dataset(sp2) if sp2["vars"] else da.Dataset()
            keys = [k for k in keys if k in ds2.keys()]
            cl.add("ds-ds:variable-sets-differ")
            if any(k in ds.dims for k in ds.keys()):
                cl.add("ds-ds:variable-named-like-a-dimension")
        snap2 = core.snapshot_dataset(ds2)
        expected = [(k, lib(lambda: f(fresh[k], ds2[k]), what="per-variable " + what, sig=sig)) for k in keys]
        res = lib(lambda: f(ds, ds2), what=what, sig=sig)
        check_result(res, expected, what, sig, attrs=False)
        check(core.snapshot_dataset(ds2) == snap2, "operand-modified", {"what": what + " [second dataset]"}, sig)
        if any(list(map(core.canon_label, v)) != list(map(core.canon_label, ds.axes[k].values.tolist())) for k, v in p["other_labels"].items()):
            cl.add("ds-ds:labels-differ")
        nontrivial = len(keys) >= 2
    elif op in ("stack_ds", "concatenate_ds"):
        def later(j, o):
            sp = relabel(case["ds"], o)
            if p.get("reorder") and len(sp["vars"]) >= 2:
                sp = dict(sp, vars=sp["vars"][j + 1:] + sp["vars"][:j + 1] if len(sp["vars"]) > j + 1 else sp["vars"][::-1])
                cl.add("join:variables-in-another-order")
            return core.build_dataset(sp)
        dss = [ds] + [later(j, o) for j, o in enumerate(p["others"])]
        kw = {}
        if p["align"]:
            kw["align"] = True
            cl.add("join:align=True")
            if p["sort"]:
                kw["sort"] = True
            if p.get("join"):
                kw["join"] = p["join"]          # (keyword forwarded to align: the intersection of the secondary labels instead of their union)
                cl.add("join:inner")
        if not p["align"] and any(dd != d or op == "stack_ds" for o_ in p["others"] for dd in o_) and not (op == "concatenate_ds" and lacks):
            # a secondary dimension carries the same labels in another order in a later dataset and no alignment was asked for: every
            # per-variable join that sees the dimension refuses, and so does the dataset-level call (whichever variable comes first)
            refused = []
            for k in keys:
                try:
                    da.stack([x[k] for x in dss], axis="stk") if op == "stack_ds" else da.concatenate([x[k] for x in dss], axis=d)
                except ValueError:
                    refused.append(k)
            if refused:
                core.must_raise((lambda: da.stack_ds(list(dss), axis="stk")) if op == "stack_ds" else (lambda: da.concatenate_ds(list(dss), axis=d)), (ValueError,),
                                what + " [variables %s are refused one by one]" % refused, sig=sig)
                cl.add("join:unaligned-secondary-labels-refused")
                return {"classes": sorted(cl), "nontrivial": True}
        if op == "stack_ds":
            ks = ["k%d" % i for i in range(len(dss))][::-1] if p["keys"] == "str" else None
            kws = dict(kw)
            if ks:
                kws["keys"] = ks
            if p["keys"] in ("dict", "dict-int"):
                # the documented {label: Dataset} form, labels inserted in an order that is not the sorted one
                import collections
                dk = ["k%d" % i for i in range(len(dss))][::-1] if p["keys"] == "dict" else [7, 3, 5][:len(dss)]
                expected = [(k, lib(lambda: da.stack(collections.OrderedDict((kk, x[k]) for kk, x in zip(dk, dss)), axis="stk", **kw), what="per-variable " + what, sig=sig)) for k in keys]
                res = lib(lambda: da.stack_ds(dict(zip(dk, dss)), axis="stk", **kw), what=what, sig=sig)
                check("stk" in res.dims and core.same_labels(res.axes["stk"].values, dk), "stack-labels", {"what": what, "got": core.brief(res.axes["stk"].values) if "stk" in res.dims else None, "expected": dk}, sig)
                cl.add("stack_ds:dict")
            else:
                expected = [(k, lib(lambda: da.stack([x[k] for x in dss], axis="stk", **kws), what="per-variable " + what, sig=sig)) for k in keys]
                res = lib(lambda: da.stack_ds(list(dss), axis="stk", **kws), what=what, sig=sig)
        else:
            if lacks:
                return {"classes": [], "nontrivial": False}   # documented precondition: the axis must be in every variable
            expected = [(k, lib(lambda: da.concatenate([x[k] for x in dss], axis=d, **kw), what="per-variable " + what, sig=sig)) for k in keys]
            res = lib(lambda: da.concatenate_ds(list(dss), axis=d, **kw), what=what, sig=sig)
        check_result(res, expected, what, sig, attrs=False)
        nontrivial = len(keys) >= 2
    check(core.snapshot_dataset(ds) == snap, "operand-modified", {"what": what + " [dataset operand]"}, sig)
    return {"classes": sorted(cl), "nontrivial": bool(nontrivial)}
