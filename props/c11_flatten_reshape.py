"""C11 - Flatten, unflatten and reshape group dimensions losslessly.

Statement: "Flattening a set of dimensions produces one grouped axis, named by the comma-joined member names,
whose i-th entry corresponds to the i-th combination of member-axis labels in row-major order of the listed
dimensions, so that the value at a grouped position equals the original value at that combination of labels.
unflatten restores the member axes exactly, and flatten followed by unflatten preserves every element's label
coordinates for any subset and order of dimensions.  reshape with comma-joined names performs the same grouping
or ungrouping together with the transposes and singleton insertions/removals it needs, and reducing over a
tuple of dimensions equals reducing over the flattened group."

Oracle: row-major product of the listed members' labels (itertools.product) -> source coordinate in the dict model.
"""
import itertools

import numpy as np
from hypothesis import strategies as st

from vlib import core, gen
from vlib.core import lib, check, Violation

ID = "C11"
TITLE = "Flatten, unflatten and reshape group dimensions losslessly"
RULE = ("generated arrays of 1-4 dims with axes of different kinds and lengths (plus square ones); for each array ALL non-empty ordered "
        "subsets of its dimensions (15 for 3-d, 64 for 4-d) as tuple / list / varargs / positions, the unordered set form, reverse=True, "
        "x insert in {None, 0..ndim-n}; unflatten() and unflatten(axis); flatten->unflatten round trip; generated reshape targets "
        "(regroup + reorder + added names + dropped singletons; transpose=False where no reordering is needed); tuple reduction vs "
        "flatten(insert=0)-then-reduce.  A sub-case is non-trivial when >= 2 dims are grouped and the subset is non-leading, "
        "non-contiguous or reordered.")
ASSUMPTIONS = [
    "oracle: itertools.product over the listed members' labels (row-major) and the dict model",
    "without insert= only 'the grouped axis exists and the other dimensions keep their relative order' is asserted",
    "tuple labels of the grouped axis are compared element-wise only when all member axes are of one kind (NumPy coerces mixed tuples)",
]
MANDATORY = ["flatten:subset", "flatten:noncontiguous", "flatten:reordered", "flatten:insert", "flatten:set", "flatten:reverse", "flatten:all",
             "unflatten", "reshape", "reshape:newdim", "reshape:drop-singleton", "reshape:transpose=False", "unflatten:after-indexing-another-dimension", "tuple-reduction", "tuple-reduction:one-dimension", "tuple-reduction:skipna-uneven-nan", "ndim:4", "square"]

ATTRS = {"units": "m"}


def budget(tier):
    return {"quick": dict(examples=120, shards=1), "thorough": dict(examples=1500, shards=16)}[tier]


@st.composite
def case_st(draw):
    square = draw(st.integers(0, 3)) == 0
    if square:
        nd = draw(st.integers(2, 4))
        dims = list(draw(st.permutations(draw(gen.names_pool()))))[:nd]
        l = draw(gen.labels(draw(st.integers(1, 3))))
        spec = {"dims": dims, "labels": [list(l) for _ in dims], "vk": "f", "base": draw(st.integers(0, 9))}
    else:
        spec = draw(gen.array_spec(min_dims=1, max_dims=4, min_size=1, max_size=3, vks="fi"))
    for i in range(len(spec["dims"])):
        if draw(st.integers(0, 5)) == 0:
            spec["labels"][i] = spec["labels"][i][:1]
    return {"spec": spec, "square": square, "r": draw(st.lists(st.integers(0, 10 ** 6), min_size=6, max_size=6))}


def strategy(tier):
    return case_st()


# ----------------------------------------------------------------------------------------------

_SRC = {}


def _quiet(f):
    import warnings
    with warnings.catch_warnings():
        warnings.simplefilter("ignore")
        return f()


def check_grouped(res, src, dims, labels, layout, what, sig, attrs=True):
    """layout: list of result dimensions, each a list of source dim names (len 1 = plain) or a new name ('+n').
    Checks dims, member axes, tuple labels and every value."""
    da = core.env.import_dimarray()
    lab_of = dict(zip(dims, labels))
    names = [",".join(g) for g in layout]
    check(isinstance(res, da.DimArray), "not-a-dimarray", {"what": what, "got": core.brief(res)}, sig)
    check(list(res.dims) == names, "dims", {"what": what, "got": list(res.dims), "expected": names}, sig)
    if _SRC.get("dtype") is not None:      # grouping and ungrouping rearrange the data, they do not convert them
        check(res.values.dtype == _SRC["dtype"], "value-dtype", {"what": what, "got": str(res.values.dtype), "source": str(_SRC["dtype"])}, sig)
    combos = []
    for i, g in enumerate(layout):
        ax = res.axes[i]
        members = [m for m in g]
        mlabels = [lab_of[m] if m in lab_of else [None] for m in members]
        combo = list(itertools.product(*mlabels))
        combos.append(combo)
        check(ax.size == len(combo) and res.values.shape[i] == len(combo), "group-size", {"what": what, "dim": names[i], "got": int(ax.size), "expected": len(combo)}, sig)
        if len(g) > 1:
            check(isinstance(ax, da.MultiAxis), "not-a-MultiAxis", {"what": what, "dim": names[i]}, sig)
            check([m.name for m in ax.axes] == members, "member-names", {"what": what, "dim": names[i], "got": [m.name for m in ax.axes], "expected": members}, sig)
            for m, ml in zip(ax.axes, mlabels):
                if ml != [None]:
                    check(core.same_labels(m.values, ml), "member-labels", {"what": what, "member": m.name, "got": core.jsonable(m.values), "expected": ml}, sig)
            kinds = {core.label_kind(ml) for ml in mlabels if ml != [None]}
            if (kinds <= {"i", "f"} or kinds == {"s"}) and all(ml != [None] for ml in mlabels):
                raw = ax.values.tolist()
                check(all(isinstance(t, (tuple, list)) and len(t) == len(members) for t in raw), "tuple-labels",
                      {"what": what, "dim": names[i], "got": core.jsonable(raw), "expected": "one %d-tuple of member labels per entry" % len(members)}, sig)
                got = [tuple(core.canon_label(x) for x in t) for t in raw]
                exp = [tuple(core.canon_label(x) for x in t) for t in combo]
                check(got == exp, "tuple-labels", {"what": what, "dim": names[i], "got": core.jsonable(got), "expected": core.jsonable(exp)}, sig)
        else:
            if mlabels[0] != [None]:
                check(core.same_labels(ax.values, mlabels[0]), "labels", {"what": what, "dim": names[i], "got": core.jsonable(ax.values), "expected": mlabels[0]}, sig)
    vals = res.values
    for idx in itertools.product(*[range(len(c)) for c in combos]):
        coord = {}
        for g, c, k in zip(layout, combos, idx):
            for m, l in zip(g, c[k]):
                coord[m] = l
        key = tuple(core.canon_label(coord[d]) if d in coord else core.canon_label(lab_of[d][0]) for d in dims)
        exp = src.cells[key]
        if not core.same_scalar(vals[idx], exp):
            raise Violation("value", {"what": what, "index": list(idx), "coord": core.jsonable(coord), "got": core.jsonable(vals[idx]), "expected": core.jsonable(exp),
                                      "result_dims": names}, sig=sig)
    if attrs:
        check(core.attrs_equal(res.attrs, ATTRS), "attrs-not-kept", {"what": what, "got": core.jsonable(res.attrs)}, sig)


def run_case(case):
    da = core.env.import_dimarray()
    spec = case["spec"]
    dims, labels = list(spec["dims"]), [list(l) for l in spec["labels"]]
    nd = len(dims)
    r = case["r"]
    a = core.build(spec, attrs=ATTRS)
    for i, ax in enumerate(a.axes):        # member axes carry metadata of their own (and a tolerance, on numeric axes)
        ax.attrs["long_name"] = "axis %d" % i
        ax.attrs["lst"] = [i]
        if core.label_kind(labels[i]) in "if" and i % 2 == 0:
            ax.tol = 1e-9
    snap = core.snapshot(a)
    _SRC["dtype"] = a.values.dtype

    def members_restored(back, what):
        for i, d in enumerate(dims):
            ax = back.axes[d]
            check(core.attrs_equal(ax.attrs, a.axes[i].attrs) and getattr(ax, "tol", None) == a.axes[i].tol, "member-axis-not-restored-exactly",
                  {"what": what, "dim": d, "attrs": core.jsonable(dict(ax.attrs)), "tol": getattr(ax, "tol", None), "expected_attrs": core.jsonable(dict(a.axes[i].attrs)),
                   "expected_tol": a.axes[i].tol}, {"op": "unflatten"})
    src = core.model_of_spec(spec)
    src_vals = core.spec_values(spec)
    sub = []
    cl = set(["ndim:%d" % nd] + (["square"] if case["square"] and len(labels[0]) > 1 else []))
    only = case.get("only")

    def guard(tag, f):
        if only is not None and only != tag:
            return
        try:
            f()
        except Violation as v:
            v.case = dict(case, only=tag)
            raise

    def layout_for(subset, insert):
        others = [[d] for d in dims if d not in subset]
        return others[:insert] + [list(subset)] + others[insert:]

    # ---- flatten: all ordered subsets ---------------------------------------------------------
    def t_flatten():
        for n in range(1, nd + 1):
            for subset in itertools.permutations(dims, n):
                subset = list(subset)
                contiguous = any(dims[i:i + n] == subset for i in range(nd))
                reordered = subset != [d for d in dims if d in subset]
                noncontig = not any(dims[i:i + n] == [d for d in dims if d in subset] for i in range(nd))
                nontrivial = n >= 2 and (dims.index(subset[0]) > 0 or noncontig or reordered)
                for insert in [None] + list(range(0, nd - n + 1)):
                    kw = {} if insert is None else {"insert": insert}
                    spellings = [("tuple", lambda: a.flatten(tuple(subset), **kw)), ("list", lambda: a.flatten(list(subset), **kw)),
                                 ("varargs", lambda: a.flatten(*subset, **kw)), ("positions", lambda: a.flatten(tuple(dims.index(d) for d in subset), **kw)),
                                 ("group (deprecated alias)", lambda: _quiet(lambda: a.group(tuple(subset), **kw)))]
                    for sname, f in spellings:
                        what = "flatten[%s](%s, %s) dims=%s labels=%s" % (sname, subset, kw, dims, labels)
                        sig = {"op": "flatten"}
                        res = lib(f, what=what, sig=sig)
                        if insert is None:
                            gname = ",".join(subset)
                            check(hasattr(res, "dims") and gname in res.dims, "group-missing", {"what": what, "got": core.brief(res)}, sig)
                            ins = list(res.dims).index(gname)
                        else:
                            ins = insert
                            cl.add("flatten:insert")
                        check_grouped(res, src, dims, labels, layout_for(subset, ins), what, sig)
                    # round trip
                    what = "flatten(%s, %s).unflatten() dims=%s" % (subset, kw, dims)
                    back = lib(lambda: a.flatten(tuple(subset), **kw).unflatten(), what=what, sig={"op": "unflatten"})
                    check(sorted(back.dims) == sorted(dims), "unflatten-dims", {"what": what, "got": list(back.dims)}, {"op": "unflatten"})
                    back2 = lib(lambda: back.transpose(*dims), what=what + ".transpose", sig={"op": "unflatten"})
                    check_grouped(back2, src, dims, labels, [[d] for d in dims], what, {"op": "unflatten"})
                    members_restored(back, what)
                    cl.add("unflatten")
                    # a grouped array that went through an operation along ANOTHER dimension is still a grouped array: unflatten restores the members
                    rest_ = [d for d in dims if d not in subset]
                    if rest_ and insert in (None, 0):
                        d0 = rest_[0]
                        n0 = len(labels[dims.index(d0)])
                        perm = list(range(n0))[::-1]
                        sel = core.label_array(labels[dims.index(d0)])[perm]
                        ref = lib(lambda: a.take_axis(perm, axis=d0, indexing="position"), what="take_axis on the plain array", sig={"op": "unflatten"})
                        for sname, f_ in (("take_axis(reversed positions, axis=%s)" % d0, lambda g: g.take_axis(perm, axis=d0, indexing="position")),
                                          ("[{%s: reversed labels}]" % d0, lambda g: g[{d0: sel}]), ("ix[{%s: slice(None, None, -1)}]" % d0, lambda g: g.take({d0: slice(None, None, -1)}, indexing="position"))):
                            what2 = "flatten(%s, %s).%s.unflatten() dims=%s labels=%s" % (subset, kw, sname, dims, labels)
                            g2 = lib(lambda: f_(a.flatten(tuple(subset), **kw)).unflatten(), what=what2, sig={"op": "unflatten"})
                            check(sorted(g2.dims) == sorted(dims), "unflatten-dims", {"what": what2, "got": list(g2.dims), "expected_set": sorted(dims)}, {"op": "unflatten"})
                            core.expect_equal_arrays(lib(lambda: g2.transpose(*dims), what=what2, sig={"op": "unflatten"}), ref, what2, sig={"op": "unflatten"})
                        cl.add("unflatten:after-indexing-another-dimension")
                    sub.append((core.digest([spec, "flatten", subset, insert]), nontrivial))
                if n < nd:
                    cl.add("flatten:subset")
                if noncontig and n >= 2:
                    cl.add("flatten:noncontiguous")
                if reordered:
                    cl.add("flatten:reordered")
                if n == nd:
                    cl.add("flatten:all")
        # no argument: all dims
        what = "flatten() dims=%s" % dims
        res = lib(lambda: a.flatten(), what=what, sig={"op": "flatten"})
        check_grouped(res, src, dims, labels, [list(dims)], what, {"op": "flatten"})
        # set form (order = array order) and reverse=True
        for n in range(1, nd + 1):
            for comb in itertools.combinations(dims, n):
                what = "flatten(set %s, insert=0) dims=%s" % (list(comb), dims)
                res = lib(lambda: a.flatten(set(comb), insert=0), what=what, sig={"op": "flatten"})
                check_grouped(res, src, dims, labels, layout_for(list(comb), 0), what, {"op": "flatten"})
                cl.add("flatten:set")
                rest = [d for d in dims if d not in comb]
                if rest:
                    what = "flatten(%s, reverse=True, insert=0) dims=%s" % (list(comb), dims)
                    res = lib(lambda: a.flatten(tuple(comb), reverse=True, insert=0), what=what, sig={"op": "flatten"})
                    check_grouped(res, src, dims, labels, [rest] + [[d] for d in comb], what, {"op": "flatten"})
                    cl.add("flatten:reverse")
                    res = lib(lambda: _quiet(lambda: a.group(tuple(comb), reverse=True, insert=0)), what=what + " [group alias]", sig={"op": "flatten"})
                    check_grouped(res, src, dims, labels, [rest] + [[d] for d in comb], what + " [group alias]", {"op": "flatten"})
                    for pname, pos in (("positions", tuple(dims.index(d) for d in comb)), ("negative positions", tuple(dims.index(d) - nd for d in comb))):
                        what = "flatten(%s %s, reverse=True, insert=0) dims=%s" % (pname, list(pos), dims)
                        res = lib(lambda: a.flatten(pos, reverse=True, insert=0), what=what, sig={"op": "flatten"})
                        check_grouped(res, src, dims, labels, [rest] + [[d] for d in comb], what, {"op": "flatten"})
                sub.append((core.digest([spec, "flatten-set", comb]), n >= 2))
    guard("flatten", t_flatten)

    # ---- unflatten(axis) with two groups -----------------------------------------------------
    def t_unflatten():
        if nd < 4:
            return
        g1, g2 = [dims[1], dims[0]], [dims[3], dims[2]]
        what = "flatten(%s, insert=0).flatten(%s, insert=1) then unflatten(axis) dims=%s" % (g1, g2, dims)
        f = lib(lambda: a.flatten(tuple(g1), insert=0).flatten(tuple(g2), insert=1), what=what, sig={"op": "flatten"})
        check_grouped(f, src, dims, labels, [g1, g2], what, {"op": "flatten"})
        u = lib(lambda: f.unflatten(axis=",".join(g2)), what=what, sig={"op": "unflatten"})
        check_grouped(u, src, dims, labels, [g1, [g2[0]], [g2[1]]], what + " [axis by name]", {"op": "unflatten"})
        u = lib(lambda: f.unflatten(axis=0), what=what, sig={"op": "unflatten"})
        check_grouped(u, src, dims, labels, [[g1[0]], [g1[1]], g2], what + " [axis by position]", {"op": "unflatten"})
        # no axis given: every grouped axis is expanded
        u = lib(lambda: f.unflatten(), what=what + " [unflatten() of two groups]", sig={"op": "unflatten"})
        check_grouped(u, src, dims, labels, [[g1[0]], [g1[1]], [g2[0]], [g2[1]]], what + " [unflatten() of two groups]", {"op": "unflatten"})
        u = lib(lambda: _quiet(lambda: f.ungroup(axis=",".join(g2))), what=what + " [ungroup (deprecated alias), axis by name]", sig={"op": "unflatten"})
        check_grouped(u, src, dims, labels, [g1, [g2[0]], [g2[1]]], what + " [ungroup alias, axis by name]", {"op": "unflatten"})
        u = lib(lambda: f.unflatten(axis=-1), what=what + " [axis=-1]", sig={"op": "unflatten"})
        check_grouped(u, src, dims, labels, [g1, [g2[0]], [g2[1]]], what + " [axis by negative position]", {"op": "unflatten"})
        sub.append((core.digest([spec, "unflatten-axis"]), True))
    guard("unflatten", t_unflatten)

    # ---- reshape ------------------------------------------------------------------------------
    def t_reshape():
        lab_of = dict(zip(dims, labels))
        for trial in range(4):
            rr = r[trial] + trial
            perm = list(itertools.permutations(dims))[rr % len(list(itertools.permutations(dims)))]
            order = list(perm)
            dropped = [d for k_, d in enumerate(order) if len(lab_of[d]) == 1 and (rr >> (3 + k_)) % 2 == 0]
            order = [d for d in order if d not in dropped]
            if (rr >> 5) % 3 == 0:
                order.insert((rr >> 7) % (len(order) + 1), "+n")
            # partition into consecutive groups
            layout, i = [], 0
            while i < len(order):
                size = 1 + ((rr >> (9 + i)) % 2) * (1 + (rr >> (11 + i)) % 2)
                layout.append(order[i:i + size])
                i += size
            target = [",".join(x.lstrip("+") for x in g) for g in layout]
            lay = [[x.lstrip("+") for x in g] for g in layout]
            existing = [x for g in lay for x in g if x in dims]
            needs_transpose = existing != [d for d in dims if d in existing]
            what = "reshape(%s) dims=%s labels=%s" % (target, dims, labels)
            sig = {"op": "reshape"}
            if tuple(target) == tuple(dims):
                continue
            for sname, f in (("varargs", lambda: a.reshape(*target)), ("list", lambda: a.reshape(list(target)))):
                res = lib(f, what=what + " [%s]" % sname, sig=sig)
                check_grouped(res, src, dims, labels, lay, what, sig)
            # ... and from an array that already carries a grouped axis: the same target must come out, and the grouped operand stays what it was
            if nd >= 2:
                pair = (dims[1], dims[0])
                g = lib(lambda: a.flatten(pair, insert=0), what="flatten(%s, insert=0) dims=%s" % (pair, dims), sig={"op": "flatten"})
                gdims = tuple(g.dims)
                if tuple(target) != gdims:
                    res = lib(lambda: g.reshape(*target), what=what + " [from the grouped array %s]" % (gdims,), sig=sig)
                    check_grouped(res, src, dims, labels, lay, what + " [from the grouped array %s]" % (gdims,), sig)
                    check(tuple(g.dims) == gdims, "operand-changed-by-reshape", {"what": what + " [from the grouped array]", "operand_dims_before": list(gdims),
                                                                                "operand_dims_after": list(g.dims)}, sig)
                    after = lib(lambda: g.unflatten().transpose(*dims), what="grouped operand after reshape: unflatten().transpose()", sig={"op": "unflatten"})
                    check_grouped(after, src, dims, labels, [[d] for d in dims], what + " [grouped operand after the call]", {"op": "unflatten"})
            if not needs_transpose:
                res = lib(lambda: a.reshape(*target, transpose=False), what=what + " transpose=False", sig=sig)
                check_grouped(res, src, dims, labels, lay, what + " transpose=False", sig)
                cl.add("reshape:transpose=False")
            else:
                core.must_raise(lambda: a.reshape(*target, transpose=False), (ValueError,), what + " transpose=False (reordering needed)", sig=sig)
            # and back again: reshape of a grouped array onto the original dims
            if not dropped and "+n" not in order:
                back = lib(lambda: a.reshape(*target).reshape(*dims), what=what + " -> reshape(%s)" % dims, sig=sig)
                check_grouped(back, src, dims, labels, [[d] for d in dims], what + " and back", sig)
            cl.add("reshape")
            if "+n" in [x for g in layout for x in g]:
                cl.add("reshape:newdim")
            if dropped:
                cl.add("reshape:drop-singleton")
            sub.append((core.digest([spec, "reshape", target]), any(len(g) > 1 for g in lay) or needs_transpose))
    guard("reshape", t_reshape)

    # ---- tuple reduction == reduction over the flattened group --------------------------------
    def t_regroup():
        # an operand that already carries a group, reshaped onto the SAME member order with the group boundary somewhere else
        if nd < 3:
            return
        for cut_from in range(1, nd):
            for cut_to in range(1, nd):
                if cut_from == cut_to:
                    continue
                g = lib(lambda: a.reshape(",".join(dims[:cut_from]), ",".join(dims[cut_from:])), what="reshape into two groups", sig={"op": "reshape"})
                target = [",".join(dims[:cut_to]), ",".join(dims[cut_to:])]
                what = "reshape(%s) of an array grouped as %s dims=%s" % (target, list(g.dims), dims)
                res = lib(lambda: g.reshape(*target), what=what, sig={"op": "reshape"})
                check_grouped(res, src, dims, labels, [dims[:cut_to], dims[cut_to:]], what, {"op": "reshape"})
        cl.add("reshape:regroup-same-order")
    guard("regroup", t_regroup)

    def t_tuple():
        if nd < 2:
            return
        # the same object reduced over a group, changed in place through the library, and reduced over the same group again
        if src_vals.dtype.kind == "f" and src_vals.size >= 2:
            for pair in list(itertools.permutations(dims, 2))[:6]:
                b = da.DimArray(np.array(src_vals, copy=True), axes=[ax.copy() for ax in a.axes])
                lib(lambda: (b.sum(axis=tuple(pair)), b.mean(axis=list(pair))), what="first reduction over %s" % (pair,), sig={"op": "tuple-reduction"})
                coord = tuple(core.label_array(l)[-1] for l in labels)
                lib(lambda: b.__setitem__(coord, 1000.0), what="b[last labels] = 1000.", sig={"op": "tuple-reduction"})
                x = lib(lambda: b.sum(axis=tuple(pair)), what="second reduction over %s after an in-place change" % (pair,), sig={"op": "tuple-reduction"})
                y = lib(lambda: b.flatten(tuple(pair), insert=0).sum(axis=0), what="flatten + sum after an in-place change", sig={"op": "tuple-reduction"})
                if nd == 2:
                    check(core.same_scalar(x, y, tol=True) and core.same_scalar(x, float(np.sum(b.values)), tol=True), "tuple-reduction-after-in-place-change",
                          {"what": "sum(axis=%s) after b[...] = 1000." % (pair,), "got": core.jsonable(x), "expected": float(np.sum(b.values))}, {"op": "tuple-reduction"})
                else:
                    core.expect_equal_arrays(x, y, "sum(axis=%s) after an in-place change vs flatten + sum" % (pair,), tol=True, sig={"op": "tuple-reduction"})
                    check(core.same_scalar(float(np.sum(x.values)), float(np.sum(b.values)), tol=True), "tuple-reduction-after-in-place-change",
                          {"what": "sum(axis=%s) after b[...] = 1000." % (pair,), "got_total": float(np.sum(x.values)), "expected_total": float(np.sum(b.values))}, {"op": "tuple-reduction"})
            cl.add("tuple-reduction:again-after-in-place-change")
        # a tuple / list naming ONE dimension is a group of one: the same as naming the dimension itself
        for d in dims:
            for red in ("sum", "mean", "max", "cumsum", "argmax"):
                for tname, targ in (("tuple of one name", (d,)), ("list of one position", [dims.index(d)])):
                    what = "%s(axis=%s) vs %s(axis=%r) dims=%s" % (red, tname, red, d, dims)
                    sig = {"op": "tuple-of-one"}
                    x = lib(lambda: getattr(a, red)(axis=targ), what=what, sig=sig)
                    y = lib(lambda: getattr(a, red)(axis=d), what=what, sig=sig)
                    if hasattr(y, "dims") and red != "cumsum":
                        core.expect_equal_arrays(x, y, what, tol=True, sig=sig)
                    elif hasattr(y, "dims"):
                        # cumsum over a group of one keeps the values, the group is named after its member and comes first
                        y2 = lib(lambda: a.flatten((d,), insert=0).cumsum(axis=0), what=what, sig=sig)
                        core.expect_equal_arrays(x, y2, what + " [flatten((d,), insert=0).cumsum(axis=0)]", tol=True, sig=sig)
                    else:
                        check(core.same_scalar(x, y, tol=True), "tuple-of-one", {"what": what, "got": core.jsonable(x), "expected": core.jsonable(y)}, sig)
        cl.add("tuple-reduction:one-dimension")
        for pair in itertools.permutations(dims, 2):
            for red in ("mean", "sum", "max"):
                what = "%s(axis=%s) vs flatten(insert=0).%s(axis=0) dims=%s" % (red, pair, red, dims)
                sig = {"op": "tuple-reduction"}
                x = lib(lambda: getattr(a, red)(axis=tuple(pair)), what=what, sig=sig)
                y = lib(lambda: getattr(a.flatten(tuple(pair), insert=0), red)(axis=0), what=what, sig=sig)
                if nd == 2:
                    check(core.same_scalar(x, y, tol=True), "tuple-reduction", {"what": what, "got": core.jsonable(x), "expected": core.jsonable(y)}, sig)
                else:
                    core.expect_equal_arrays(x, y, what, tol=True, sig=sig)
                # and against the model
                rest = [d for d in dims if d not in pair]
                fib = {}
                for coord in src.coords():
                    c = dict(zip(dims, coord))
                    fib.setdefault(tuple(c[d] for d in rest), []).append(src.cells[coord])
                f = {"mean": lambda v: sum(v) / float(len(v)), "sum": sum, "max": max}[red]
                if nd > 2:
                    core.expect_array(x, rest, [labels[dims.index(d)] for d in rest], lambda c: f(fib[tuple(core.canon_label(c[d]) for d in rest)]), what, tol=True, sig=sig)
            # the same with missing values spread unevenly over the group and skipna=True: ONE reduction over the whole group
            # (the mean of the valid cells, not a mean of per-dimension means)
            if src_vals.dtype.kind == "f" and src_vals.size >= 3:
                nanv = np.array(src_vals, dtype=float, copy=True)
                flat = nanv.reshape(-1)
                for j in range(flat.size):
                    if (j * 5 + r[0]) % 3 == 0 and j != flat.size - 1:
                        flat[j] = np.nan
                an = da.DimArray(nanv, axes=[ax.copy() for ax in a.axes])
                for red in ("mean", "sum"):
                    what = "%s(axis=%s, skipna=True) vs flatten(insert=0).%s(axis=0, skipna=True) dims=%s values=%s" % (red, pair, red, dims, core.jsonable(nanv))
                    sig = {"op": "tuple-reduction-skipna"}
                    x = lib(lambda: getattr(an, red)(axis=tuple(pair), skipna=True), what=what, sig=sig)
                    y = lib(lambda: getattr(an.flatten(tuple(pair), insert=0), red)(axis=0, skipna=True), what=what, sig=sig)
                    if nd == 2:
                        check(core.same_scalar(x, y, tol=True), "tuple-reduction", {"what": what, "got": core.jsonable(x), "expected": core.jsonable(y)}, sig)
                        valid = [v for v in nanv.reshape(-1).tolist() if v == v]
                        exp = (sum(valid) / len(valid) if red == "mean" else sum(valid)) if valid else (float("nan") if red == "mean" else 0.0)
                        check(core.same_scalar(x, exp, tol=True), "tuple-reduction", {"what": what, "got": core.jsonable(x), "expected": exp}, sig)
                    else:
                        core.expect_equal_arrays(x, y, what, tol=True, sig=sig)
                    cl.add("tuple-reduction:skipna-uneven-nan")
            # order-sensitive along-axis functions over a tuple of dimensions: the group is formed in the listed order
            for fn in ("cumsum", "argmax", "argmin"):
                what = "%s(axis=%s) vs flatten(%s, insert=0).%s(axis=0) dims=%s" % (fn, pair, pair, fn, dims)
                sig = {"op": "tuple-" + fn}
                x = lib(lambda: getattr(a, fn)(axis=tuple(pair)), what=what, sig=sig)
                y = lib(lambda: getattr(a.flatten(tuple(pair), insert=0), fn)(axis=0), what=what, sig=sig)
                if hasattr(x, "dims") or hasattr(y, "dims"):
                    check(hasattr(x, "dims") and hasattr(y, "dims") and tuple(x.dims) == tuple(y.dims), "tuple-axis-dims", {"what": what, "got": list(getattr(x, "dims", [])), "expected": list(getattr(y, "dims", []))}, sig)
                    if fn == "cumsum":
                        check(x.dims[0] == ",".join(pair), "tuple-axis-group-name", {"what": what, "got": list(x.dims), "expected_first": ",".join(pair)}, sig)
                    for i in range(len(x.dims)):
                        check([core.canon_label(v) for v in x.axes[i].values.tolist()] == [core.canon_label(v) for v in y.axes[i].values.tolist()], "tuple-axis-labels", {"what": what, "dim": x.dims[i], "got": core.jsonable(x.axes[i].values), "expected": core.jsonable(y.axes[i].values)}, sig)
                    gx, gy = np.asarray(x.values, dtype=object).ravel().tolist(), np.asarray(y.values, dtype=object).ravel().tolist()
                    check(len(gx) == len(gy) and all(core.canon_label(p_) == core.canon_label(q_) or core.same_scalar(p_, q_, tol=True) for p_, q_ in zip(gx, gy)), "tuple-axis-values", {"what": what, "got": core.jsonable(gx), "expected": core.jsonable(gy)}, sig)
                else:
                    check(core.canon_label(x) == core.canon_label(y), "tuple-axis-values", {"what": what, "got": core.jsonable(x), "expected": core.jsonable(y)}, sig)
                kinds_ = {core.label_kind(l) for l in labels}
                if fn != "cumsum" and nd == 2 and (kinds_ <= {"i", "f"} or kinds_ == {"s"}) and not np.isnan(np.asarray(src_vals, dtype=float)).any():
                    # arg-extremum over all dims as a tuple: a tuple of labels in the listed order that addresses the extremum
                    lab = x.values.item() if hasattr(x, "values") else x
                    c = dict(zip(pair, lab))
                    ext = (max if fn == "argmax" else min)(src.cells.values())
                    check(src.cells[tuple(core.canon_label(c[d]) for d in dims)] == ext, "tuple-arg-not-at-extremum", {"what": what, "got": core.jsonable(lab)}, sig)
            cl.add("tuple-reduction")
            sub.append((core.digest([spec, "tuple", pair]), True))
    guard("tuple", t_tuple)

    core.expect_unchanged(a, snap, "flatten/reshape", {"op": "operand"})
    return {"classes": sorted(cl), "sub": sub}
