"""C05 - Every produced array is well-formed and history-independent.

Statement: "Every DimArray returned by a public constructor, method or function - and every variable of a Dataset
- has exactly one axis per array dimension, each axis one-dimensional with length equal to the corresponding
shape entry, and dimension names that are distinct non-empty strings.  All documented ways of specifying the same
axes (label lists plus dims, (name, labels) pairs, Axis objects, a dict with dims, nested dicts, the
zeros/ones/empty helpers) build equal arrays, while data whose shape disagrees with the axes, or duplicate
dimension names, are rejected with an exception.  An array that has been through any sequence of operations and
queries answers every further operation exactly like a freshly constructed array with the same values, labels and
dims (no stale cached state)."

Technique: (a) constructor-form differential; (b) generated histories (programs over a pool of arrays).  Every
step is executed twice: on the history-laden pool member and on a *fresh twin* rebuilt from (values.copy(), dims,
copies of the labels; grouped axes are rebuilt from fresh copies of their member axes).  Outcomes must agree
(equal dims / labels / values, or the same exception type).  DimArray.__init__ is wrapped (recording only) so
that every array the library constructs on the way is checked for well-formedness.
"""
import itertools

import contextlib
import numpy as np
from hypothesis import strategies as st

from vlib import core, gen
from vlib.core import lib, check, Violation

ID = "C05"
TITLE = "Every produced array is well-formed and history-independent"
RULE = ("(a) enumerated + generated constructor forms for a generated (values, dims, labels): label lists + dims, labels=, (name, labels) pairs, "
        "Axis objects, dict + dims (both key orders), nested dicts / from_nested, nested lists, zeros/ones/empty/nans (+_like), DimArray(other), "
        "array(); negative forms: wrong-length labels on each dim, transposed values, duplicate names (pairs / dims), empty / non-str name.  "
        "(b) generated programs of <= 30 steps (quick <= 20) over a pool of <= 6 arrays: label / position indexing, assignment, arithmetic "
        "between pool members, reductions, cumsum/diff, transpose/swapaxes/newaxis/squeeze/repeat/broadcast, flatten/unflatten/reshape, "
        "reindex/sort/take_axis, align, stack/concatenate, Dataset insertion + extraction, in-place set_axis / axes[d][i]= / axes[d].name= / "
        "dims= / labels=, interleaved with cache-populating queries (is_monotonic, flatten().labels, size, repr); each step doubles as the "
        "history-vs-fresh-twin differential and every constructed object is checked for well-formedness.  Non-trivial program: a "
        "cache-populating query followed by an in-place relabel or a slice of the same array, or two pool members sharing an Axis object.")
ASSUMPTIONS = [
    "twin = DimArray(values.copy(), fresh Axis objects with copied labels and names); grouped axes rebuilt as MultiAxis over fresh member copies; attrs / tol are not part of 'values, labels and dims'",
    "renames only to fresh names; dimension names are comma-free",
    "in-place relabel / rename of an Axis that is a member of a live grouped axis is generated separately (known finding KF-D25)",
    "the 'indexing.by' option is held at its default (DimArray._indexing is documented captured state)",
]
MANDATORY = ["ctor:positive", "ctor:negative", "step:index", "step:assign", "step:arith", "step:reduce", "step:reshape", "step:flatten", "step:reindex",
             "step:align", "step:join", "step:dataset", "step:relabel", "step:rename", "step:query", "query-then-relabel", "shared-axis-objects", "grouped-axis-in-pool"]

_constructed = []
_wrapped = {}


def install_wrapper():
    """observe every object that passes through DimArray.__init__ (recording only: control flow is unchanged)"""
    da = core.env.import_dimarray()
    if _wrapped.get("done"):
        return
    orig = da.DimArray.__init__

    def __init__(self, *a, **k):
        orig(self, *a, **k)
        _constructed.append(self)
    __init__.__wrapped__ = orig
    da.DimArray.__init__ = __init__
    _wrapped["done"] = True


def wellformed(x, what, sig=None):
    v = getattr(x, "_values", None)
    axes = getattr(x, "_axes", None)
    if v is None or axes is None:
        return
    check(len(axes) == v.ndim, "one-axis-per-dimension", {"what": what, "naxes": len(axes), "ndim": v.ndim}, sig)
    names = []
    def length(ax):
        # read-only: a grouped axis builds (and caches) its tuple labels on first access to .values, and the
        # observer must not populate caches; its length is the product of its members' lengths
        if is_grouped(ax):
            n = 1
            for mm in ax.axes:
                n *= length(mm)
            return n
        check(np.ndim(ax.values) == 1, "axis-not-1d", {"what": what}, sig)
        return len(ax.values)
    for i, ax in enumerate(axes):
        check(length(ax) == v.shape[i], "axis-length", {"what": what, "dim": i, "axis": length(ax), "shape": list(v.shape)}, sig)
        check(isinstance(ax.name, str) and ax.name != "", "axis-name", {"what": what, "name": repr(ax.name)}, sig)
        names.append(ax.name)
    check(len(set(names)) == len(names), "duplicate-dimension-names", {"what": what, "names": names}, sig)


def drain(what, sig=None):
    objs = list(_constructed)
    del _constructed[:]
    for x in objs:
        wellformed(x, what + " [object constructed by the library during this step]", sig)
    return len(objs)


def budget(tier):
    return {"quick": dict(examples=1200, shards=1), "thorough": dict(examples=6000, shards=16)}[tier]


# ----------------------------------------------------------------------------------------------
# (a) constructor forms
# ----------------------------------------------------------------------------------------------

def enumerate_cases(tier):
    for spec in ({"dims": ["x"], "labels": [[3, 1, 2]], "vk": "f", "base": 0},
                 {"dims": ["x", "y"], "labels": [[3, 1], ["a", "b", "c"]], "vk": "f", "base": 0},
                 {"dims": ["t", "x", "y"], "labels": [[0.5, 1.5], [3, 1, 2], ["b", "a"]], "vk": "i", "base": 4},
                 {"dims": ["x", "y"], "labels": [["u", "v"], [2, 1]], "vk": "f", "base": 0},
                 {"dims": ["x", "y"], "labels": [[], [1, 2]], "vk": "f", "base": 0},
                 {"dims": ["x", "y"], "labels": [[7], [1, 2]], "vk": "f", "base": 0},
                 {"dims": ["t"], "labels": [["only"]], "vk": "i", "base": 1},
                 {"dims": ["y", "x"], "labels": [[2, 1], [0.5]], "vk": "f", "base": 0},
                 {"dims": ["x", "y"], "labels": [[2, 1], ["a", "b"]], "vk": "f", "base": 0},
                 {"dims": [], "labels": [], "vk": "f", "base": 2}):
        yield "constructor-forms", {"mode": "ctor", "spec": spec}


def run_ctor(case):
    da = core.env.import_dimarray()
    spec = case["spec"]
    dims, labels = spec["dims"], spec["labels"]
    vals = core.spec_values(spec)
    nd = len(dims)
    ref = core.build(spec)
    larr = [core.label_array(l) for l in labels]
    sig = {"mode": "ctor"}
    sub = []
    forms = [
        ("label arrays + dims", lambda: da.DimArray(vals, axes=[x.copy() for x in larr], dims=list(dims))),
        ("label lists + dims", lambda: da.DimArray(vals, axes=[list(l) for l in labels], dims=list(dims))),
        ("labels= + dims", lambda: da.DimArray(vals, labels=[list(l) for l in labels], dims=tuple(dims))),
        ("(name, labels) pairs", lambda: da.DimArray(vals, axes=[(d, list(l)) for d, l in zip(dims, labels)])),
        ("Axis objects", lambda: da.DimArray(vals, axes=[da.Axis(x.copy(), d) for d, x in zip(dims, larr)])),
        # (name, labels) pairs whose labels are ready-made Axis objects carrying ANOTHER name (e.g. another array's axis): the pair names the dimension
        ("(name, Axis of another name) pairs", lambda: da.DimArray(vals, axes=[(d, da.Axis(x.copy(), "other_" + d)) for d, x in zip(dims, larr)])),
        ("(name, one Axis for all) pairs", lambda: da.DimArray(vals, axes=[(d, da.Axis(x.copy(), dims[0] if dims else "z")) for d, x in zip(dims, larr)])),
        ("Axes object", lambda: da.DimArray(vals, axes=da.Axes([da.Axis(x.copy(), d) for d, x in zip(dims, larr)]))),
        ("dict + dims", lambda: da.DimArray(vals, axes={d: list(l) for d, l in zip(dims, labels)}, dims=list(dims))),
        ("dict (reversed key order) + dims", lambda: da.DimArray(vals, axes={d: list(l) for d, l in list(zip(dims, labels))[::-1]}, dims=list(dims))),
        ("DimArray(other)", lambda: da.DimArray(core.build(spec))),
        # the data handed over as a DimArray that carries OTHER labels and names, together with explicit axes: the explicit axes count
        ("DimArray(other-labelled DimArray, axes=pairs)", lambda: da.DimArray(da.DimArray(vals, axes=[("o%d" % i_, np.arange(len(l)) + 50) for i_, l in enumerate(labels)]),
                                                                                  axes=[(d, list(l)) for d, l in zip(dims, labels)])),
        ("DimArray(other-labelled DimArray, label lists + dims)", lambda: da.DimArray(da.DimArray(vals, axes=[("o%d" % i_, np.arange(len(l)) + 50) for i_, l in enumerate(labels)]),
                                                                                          axes=[x.copy() for x in larr], dims=list(dims))),
        ("array()", lambda: da.array(vals, axes=[x.copy() for x in larr], dims=list(dims))),
        ("copy of a copy", lambda: core.build(spec).copy().copy()),
    ]
    if vals.size:   # (a nested list cannot express an empty 2-d shape)
        forms.append(("values as nested list", lambda: da.DimArray(vals.tolist(), axes=[x.copy() for x in larr], dims=list(dims))))
    if nd and all(len(l) for l in labels) and all(len(set(map(str, l))) == len(l) for l in labels):
        def nested(level, idx):
            if level == nd:
                return vals[tuple(idx)].item()
            return {labels[level][k]: nested(level + 1, idx + [k]) for k in range(len(labels[level]))}
        forms.append(("nested dicts", lambda: da.DimArray(nested(0, []), dims=list(dims))))
        forms.append(("from_nested", lambda: da.DimArray.from_nested(nested(0, []), dims=list(dims))))
        if nd >= 2:
            def nested_arr(level, idx):       # dictionaries down to the last dimension, whose values are 1-d arrays
                if level == nd - 1:
                    return np.array(vals[tuple(idx)], copy=True)
                return {labels[level][k]: nested_arr(level + 1, idx + [k]) for k in range(len(labels[level]))}
            forms.append(("nested dicts with array leaves, labels= down to the leaves", lambda: da.DimArray(nested_arr(0, []), dims=list(dims), labels=[list(l) for l in labels])))
            forms.append(("from_nested with array leaves, labels=", lambda: da.DimArray.from_nested(nested_arr(0, []), dims=list(dims), labels=[list(l) for l in labels])))
    if nd == 1:
        forms.append(("1-d: (name, labels) tuple", lambda: da.DimArray(vals, (dims[0], larr[0].copy()))))
        forms.append(("1-d: labels, name", lambda: da.DimArray(vals, larr[0].copy(), dims[0])))
        forms.append(("1-d: (name, Axis of another name) tuple", lambda: da.DimArray(vals, (dims[0], da.Axis(larr[0].copy(), "other_")))))
        if len(labels[0]):      # (an empty flat list cannot be told from an empty list of label lists)
            forms.append(("1-d: axes=labels, dims=bare name", lambda: da.DimArray(vals, axes=larr[0].copy(), dims=dims[0])))
            forms.append(("1-d: labels=labels, dims=bare name", lambda: da.DimArray(vals, labels=list(labels[0]), dims=dims[0])))
        # a bare name and no labels: the default labels 0..n-1 under that name
        for name, f in (("DimArray(values, dims=bare name)", lambda: da.DimArray(vals, dims=dims[0])), ("zeros(dims=bare name, shape=)", lambda: da.zeros(dims=dims[0], shape=tuple(vals.shape))),
                        ("DimArray(values, dims=[name])", lambda: da.DimArray(vals, dims=[dims[0]]))):
            what = "constructor form '%s' dims=%s" % (name, dims)
            res = lib(f, what=what, sig=sig)
            wellformed(res, what, sig)
            check(tuple(res.dims) == tuple(dims) and core.same_labels(res.axes[0].values, list(range(len(labels[0])))), "default-labels-under-the-given-name", {"what": what, "got": core.brief(res)}, sig)
    for name, f in forms:
        what = "constructor form '%s' dims=%s labels=%s" % (name, dims, labels)
        res = lib(f, what=what, sig=sig)
        wellformed(res, what, sig)
        core.expect_equal_arrays(res, ref, what, sig=sig)
        sub.append((core.digest([spec, name]), nd >= 1))
    # helpers: same axes, prescribed fill
    if nd:
        helpers = [("zeros", lambda: da.zeros(axes=[x.copy() for x in larr], dims=list(dims)), 0.0),
                   ("zeros with a consistent shape=", lambda: da.zeros(axes=[(d, list(l)) for d, l in zip(dims, labels)], shape=tuple(vals.shape)), 0.0),
                   ("zeros (name, Axis of another name) pairs", lambda: da.zeros(axes=[(d, da.Axis(x.copy(), "other_" + d)) for d, x in zip(dims, larr)]), 0.0), ("ones pairs", lambda: da.ones(axes=[(d, list(l)) for d, l in zip(dims, labels)]), 1.0),
                   ("nans Axis", lambda: da.nans(axes=[da.Axis(x.copy(), d) for d, x in zip(dims, larr)]), float("nan")),
                   ("empty", lambda: da.empty(axes=[x.copy() for x in larr], dims=list(dims)), None),
                   ("zeros_like", lambda: da.zeros_like(ref), 0), ("ones_like", lambda: da.ones_like(ref), 1), ("nans_like", lambda: da.nans_like(ref), float("nan")),
                   ("empty_like", lambda: da.empty_like(ref), None), ("DimArray(axes only)", lambda: da.DimArray(axes=[x.copy() for x in larr], dims=list(dims)), float("nan"))]
        for name, f, fill in helpers:
            what = "helper '%s' dims=%s labels=%s" % (name, dims, labels)
            res = lib(f, what=what, sig=sig)
            wellformed(res, what, sig)
            check(tuple(res.dims) == tuple(dims) and all(core.same_labels(res.axes[i].values, labels[i]) for i in range(nd)) and res.values.shape == vals.shape,
                  "helper-axes", {"what": what, "got": core.brief(res)}, sig)
            if fill is not None:
                check(all(core.same_scalar(x, fill) for x in res.values.ravel().tolist()), "helper-fill", {"what": what, "got": core.jsonable(res.values)}, sig)
            sub.append((core.digest([spec, name]), True))
    # negative forms
    neg = []
    for i in range(nd):
        bad = [list(l) for l in labels]
        bad[i] = bad[i] + [bad[i][0] if bad[i] else 1]
        neg.append(("wrong-length labels on dim %d" % i, lambda bad=bad: da.DimArray(vals, axes=[core.label_array(l) for l in bad], dims=list(dims))))
        if len(labels[i]) > 0:
            short = [list(l) for l in labels]
            short[i] = short[i][:-1]
            neg.append(("too few labels on dim %d" % i, lambda short=short: da.DimArray(vals, axes=[(d, core.label_array(l)) for d, l in zip(dims, short)])))
    for i in range(nd):
        if len(labels[i]) == 1:
            # a bare scalar where a sequence of labels is expected (a 0-d axis has size 1, so only a dimensionality check can refuse it)
            sc = labels[i][0]
            pairs = [(d, sc if j == i else core.label_array(l)) for j, (d, l) in enumerate(zip(dims, labels))]
            neg.append(("scalar label in (name, labels) pairs on dim %d" % i, lambda pairs=pairs: da.DimArray(vals, axes=pairs)))
            neg.append(("Axis(scalar) on dim %d" % i, lambda i=i, sc=sc: da.DimArray(vals, axes=[da.Axis(sc, d) if j == i else da.Axis(core.label_array(l), d)
                                                                                                  for j, (d, l) in enumerate(zip(dims, labels))])))
            neg.append(("scalar label in dict + dims on dim %d" % i, lambda i=i, sc=sc: da.DimArray(vals, axes={d: (sc if j == i else core.label_array(l))
                                                                                                               for j, (d, l) in enumerate(zip(dims, labels))}, dims=list(dims))))
    if nd >= 1:
        # data of another dimensionality than the axes: 0-d, one dimension fewer, one more (also of length 1)
        axforms = [("pairs", lambda: dict(axes=[(d, list(l)) for d, l in zip(dims, labels)])), ("Axis objects", lambda: dict(axes=[da.Axis(x.copy(), d) for d, x in zip(dims, larr)])),
                   ("label lists + dims", lambda: dict(axes=[list(l) for l in labels], dims=list(dims))), ("dict + dims", lambda: dict(axes={d: list(l) for d, l in zip(dims, labels)}, dims=list(dims)))]
        others = [("python scalar", 5.0), ("numpy scalar", np.float64(5.0)), ("0-d array", np.array(5.0)), ("leading length-1 dimension added", vals[None]), ("trailing length-1 dimension added", vals[..., None])]
        if nd >= 2 and vals.size:
            others.append(("first dimension dropped", vals[0]))
        for oname, other in others:
            for aname, kw in axforms:
                neg.append(("data of another dimensionality (%s) with %s" % (oname, aname), lambda other=other, kw=kw: da.DimArray(other, **kw())))
    if nd >= 1:
        other = da.DimArray(vals, axes=[("o%d" % i_, np.arange(len(l)) + 50) for i_, l in enumerate(labels)])
        bad1 = [list(l) for l in labels]
        bad1[0] = bad1[0] + [bad1[0][0] if bad1[0] else 1]
        neg.append(("DimArray data with explicit axes of the wrong size", lambda: da.DimArray(other, axes=[(d, list(l)) for d, l in zip(dims, bad1)])))
        # helper functions given axes AND a shape= that disagrees with them (transposed, too short, too long)
        for hname in ("zeros", "ones", "empty", "nans"):
            wrong = [tuple(vals.shape) + (1,), tuple(vals.shape)[:-1]] + ([tuple(vals.shape)[::-1]] if tuple(vals.shape)[::-1] != tuple(vals.shape) else [])
            wrong.append(tuple(n_ + 1 for n_ in vals.shape))
            for w_ in wrong:
                neg.append(("%s(axes=..., shape=%s) against axes of shape %s" % (hname, list(w_), list(vals.shape)),
                            lambda hname=hname, w_=w_: getattr(da, hname)(axes=[(d, list(l)) for d, l in zip(dims, labels)], shape=w_)))
    if nd >= 2:
        other2 = da.DimArray(vals, axes=[("o%d" % i_, np.arange(len(l)) + 50) for i_, l in enumerate(labels)])
        neg.append(("DimArray data with explicit axes of duplicate names", lambda: da.DimArray(other2, axes=[(dims[0], list(l)) for l in labels])))
    if nd >= 2 and vals.T.shape != vals.shape:
        neg.append(("transposed values",lambda: da.DimArray(vals.T, axes=[x.copy() for x in larr], dims=list(dims))))
    if nd >= 2:
        dd = list(dims)
        dd[1] = dd[0]
        neg.append(("duplicate names (dims form)", lambda: da.DimArray(vals, axes=[x.copy() for x in larr], dims=dd)))
        neg.append(("duplicate names (pairs form)", lambda: da.DimArray(vals, axes=[(d, x.copy()) for d, x in zip(dd, larr)])))
        neg.append(("duplicate names (Axis form)", lambda: da.DimArray(vals, axes=[da.Axis(x.copy(), d) for d, x in zip(dd, larr)])))
        neg.append(("duplicate names (default labels)", lambda: da.DimArray(vals, dims=dd)))
        neg.append(("one axis missing", lambda: da.DimArray(vals, axes=[x.copy() for x in larr[:-1]], dims=list(dims[:-1]))))
    if nd >= 1:
        # methods that would return an array with a dimension name twice
        neg.append(("newaxis(existing name)", lambda: core.build(spec).newaxis(dims[0])))
        neg.append(("newaxis(existing name, pos=last)", lambda: core.build(spec).newaxis(dims[-1], pos=nd)))
        neg.append(("newaxis(name).newaxis(same name)", lambda: core.build(spec).newaxis("extra_").newaxis("extra_")))
        neg.append(("newaxis(existing name, values=)", lambda: core.build(spec).newaxis(dims[0], values=[1, 2])))
        neg.append(("stack(axis=existing name)", lambda: da.stack([core.build(spec), core.build(spec)], axis=dims[0])))
    if nd >= 1:
        for bad_name in ("", 5, None if False else 2.5):
            neg.append(("set_axis(name=%r, inplace=False)" % (bad_name,), lambda bad_name=bad_name: core.build(spec).set_axis(name=bad_name, axis=0, inplace=False)))
            neg.append(("Axis.set(name=%r)" % (bad_name,), lambda bad_name=bad_name: da.Axis(larr[0].copy(), dims[0]).set(name=bad_name, inplace=False)))
    if nd >= 2:
        neg.append(("set_axis(name=another dimension's name, inplace=False)", lambda: core.build(spec).set_axis(name=dims[1], axis=dims[0], inplace=False)))
        neg.append(("set_axis(name=another dimension's name, axis by position, inplace=False)", lambda: core.build(spec).set_axis(name=dims[0], axis=nd - 1, inplace=False)))
        neg.append(("reshape(a name twice)", lambda: core.build(spec).reshape(*(list(dims) + [dims[0]]))))
    if nd >= 1:
        neg.append(("empty name", lambda: da.DimArray(vals, axes=[x.copy() for x in larr], dims=[""] + list(dims[1:]))))
        neg.append(("non-str name", lambda: da.DimArray(vals, axes=[x.copy() for x in larr], dims=[3] + list(dims[1:]))))
        neg.append(("zeros with duplicate names", lambda: da.zeros(axes=[x.copy() for x in larr] * 2, dims=list(dims) * 2)))
    for name, f in neg:
        what = "negative constructor form '%s' dims=%s labels=%s" % (name, dims, labels)
        core.must_raise(f, (Exception,), what, sig=sig)
        sub.append((core.digest([spec, name]), True))
    # in-place replacements that would leave the array malformed: whatever the library does (refuse, broadcast a single label), the array stays well-formed
    for i in range(nd):
        d = dims[i]
        wrong = list(labels[i]) + [labels[i][0] if labels[i] else 1]
        if core.label_kind(wrong) != "s" and len(set(wrong)) != len(wrong):
            wrong = list(labels[i]) + [max(labels[i]) + 1]
        warr = core.label_array(wrong)
        inplace = [("axes[name] = Axis of another length", lambda b: b.axes.__setitem__(d, da.Axis(warr.copy(), d))),
                   ("axes[position] = Axis of another length", lambda b: b.axes.__setitem__(i, da.Axis(warr.copy(), d))),
                   ("axes[name] = labels of another length", lambda b: b.axes.__setitem__(d, list(wrong))),
                   ("axes = list of label lists of another length", lambda b: setattr(b, "axes", [list(wrong) if j == i else list(l) for j, l in enumerate(labels)])),
                   ("axes = Axes of another length", lambda b: setattr(b, "axes", da.Axes([da.Axis(warr.copy() if j == i else core.label_array(l), dd)
                                                                                            for j, (dd, l) in enumerate(zip(dims, labels))]))),
                   ("labels = lists of another length", lambda b: setattr(b, "labels", [warr.copy() if j == i else core.label_array(l) for j, l in enumerate(labels)])),
                   ("set_axis(labels of another length)", lambda b: b.set_axis(warr.copy(), axis=d)),
                   ("a.<dim> = labels of another length", lambda b: setattr(b, d, warr.copy())),
                   ("axes[name].values = labels of another length", lambda b: setattr(b.axes[d], "values", warr.copy())),
                   ("values = array of another shape", lambda b: setattr(b, "values", np.zeros(tuple(len(l) + (1 if j == i else 0) for j, l in enumerate(labels)))))]
        if nd >= 2:
            inplace.append(("set_axis(name=another dimension's name)", lambda b: b.set_axis(name=dims[(i + 1) % nd], axis=d)))
            inplace.append(("set_axis(name='')", lambda b: b.set_axis(name="", axis=d)))
            inplace.append(("set_axis(name=5)", lambda b: b.set_axis(name=5, axis=d)))
            inplace.append(("dims = fewer names", lambda b: setattr(b, "dims", tuple(dims[:-1]))))
            inplace.append(("axes = fewer axes (Axis objects)", lambda b: setattr(b, "axes", [da.Axis(core.label_array(l), dd) for dd, l in list(zip(dims, labels))[:-1]])))
            inplace.append(("axes = fewer axes (Axes)", lambda b: setattr(b, "axes", da.Axes([da.Axis(core.label_array(l), dd) for dd, l in list(zip(dims, labels))[:-1]]))))
            inplace.append(("axes = fewer axes (label lists)", lambda b: setattr(b, "axes", [list(l) for l in labels[:-1]])))
        inplace.append(("axes = one more axis", lambda b: setattr(b, "axes", [da.Axis(core.label_array(l), dd) for dd, l in zip(dims, labels)] + [da.Axis(np.array([0]), "extra_")])))
        inplace.append(("axes = one more axis (Axes)", lambda b: setattr(b, "axes", da.Axes([da.Axis(core.label_array(l), dd) for dd, l in zip(dims, labels)] + [da.Axis(np.array([0]), "extra_")]))))
        for name, g in inplace:
            b = da.DimArray(vals.copy(), axes=[da.Axis(x.copy(), dd) for dd, x in zip(dims, larr)])
            what = "in-place '%s' on dim %s dims=%s labels=%s" % (name, d, dims, labels)
            try:
                with contextlib.redirect_stdout(core._DEVNULL):
                    g(b)                      # refused with an exception, or accepted in a way that keeps the array well-formed
            except Exception:
                pass
            # (the statement asks for well-formedness, not for atomicity: e.g. a refused `values =` may already have widened the dtype)
            check(len(b.axes) == b.values.ndim and all(ax.size == n for ax, n in zip(b.axes, b.values.shape)) and len(set(b.dims)) == len(b.dims) and all(isinstance(n_, str) and n_ for n_ in b.dims),
                  "array-malformed-after-refused-replacement", {"what": what, "now": core.brief(b)}, sig)
            sub.append((core.digest([spec, name, i]), True))
    drain("constructor forms", sig)
    return {"classes": ["ctor:positive"] + (["ctor:negative"] if neg else []), "sub": sub}


# ----------------------------------------------------------------------------------------------
# (b) histories
# ----------------------------------------------------------------------------------------------

FRESH = ["p", "q", "r", "s", "u", "v", "g", "h", "m", "n", "p2", "q2", "r2", "s2", "u2", "v2", "g2", "h2", "m2", "n2", "p3", "q3", "r3", "s3"]
_IN_USE = set()


def is_grouped(ax):
    return hasattr(ax, "axes") and type(ax).__name__ == "MultiAxis"


def grp(ax):
    """grouped, or a plain Axis holding tuple labels (what a freshly constructed equivalent of a grouped axis is)"""
    if is_grouped(ax):
        return len(ax.axes) > 1          # a one-member group carries its member's plain labels: treated as a plain axis
    v = ax.values
    return v.dtype.kind == "O" and len(v) > 0 and isinstance(v[0], tuple)


def twin_axis(da, ax, structured):
    if is_grouped(ax):
        if structured:
            return da.MultiAxis(*[twin_axis(da, m, True) for m in ax.axes])
        src = ax.values                      # (reading the labels is a query on the history-laden array: part of the history)
        if src.dtype.kind != "O" or not (len(src) and isinstance(src[0], tuple)):
            return da.Axis(src.copy(), str(ax.name))      # a one-member group carries its member's plain labels
        v = np.empty(len(src), dtype=object)
        v[:] = list(src)
        return da.Axis(v, str(ax.name))
    v = ax.values
    return da.Axis(v.copy(), str(ax.name))


def twin(da, h, structured=False):
    """freshly constructed array with the same values, labels and dims.  structured=True keeps grouped axes as
    MultiAxis over fresh copies of their members (needed by unflatten / reshape); otherwise a grouped axis becomes
    a plain Axis with the same tuple labels"""
    # order='C': a freshly constructed array owns an ordinary row-major buffer (the history-laden one may be a
    # Fortran-ordered or strided view)
    return da.DimArray(np.array(h.values, copy=True, order="C"), axes=[twin_axis(da, ax, structured) for ax in h.axes])


def has_group(h):
    return any(grp(ax) for ax in h.axes)


def real_group(h):
    return any(is_grouped(ax) for ax in h.axes)


def tuple_labelled(h):
    """a plain Axis holding tuple labels (e.g. a slice of a grouped axis): outside the label kinds of the properties;
    such arrays stay in the pool but are not grouped again"""
    for ax in h.axes:
        if not is_grouped(ax) and ax.values.dtype.kind == "O" and len(ax.values) and isinstance(ax.values[0], tuple):
            return True
    return False


def same_result(r1, r2, what, sig):
    da = core.env.import_dimarray()
    if isinstance(r1, da.DimArray) or isinstance(r2, da.DimArray):
        check(isinstance(r1, da.DimArray) and isinstance(r2, da.DimArray), "result-kind-differs", {"what": what, "history": core.brief(r1), "fresh": core.brief(r2)}, sig)
        check(tuple(r1.dims) == tuple(r2.dims), "dims-differ", {"what": what, "history": list(r1.dims), "fresh": list(r2.dims)}, sig)
        for i in range(len(r1.dims)):
            l1, l2 = r1.axes[i].values.tolist(), r2.axes[i].values.tolist()
            check(len(l1) == len(l2) and all(core.canon_label(x) == core.canon_label(y) or (x is None and y is None) for x, y in zip(l1, l2)), "labels-differ",
                  {"what": what, "dim": r1.dims[i], "history": core.jsonable(l1), "fresh": core.jsonable(l2)}, sig)
        v1, v2 = np.asarray(r1.values, dtype=object).ravel().tolist(), np.asarray(r2.values, dtype=object).ravel().tolist()
        check(r1.values.shape == r2.values.shape and all(core.same_scalar(x, y, tol=True) for x, y in zip(v1, v2)), "values-differ", {"what": what, "history": core.brief(r1), "fresh": core.brief(r2)}, sig)
        return
    if isinstance(r1, (list, tuple)) and isinstance(r2, (list, tuple)):
        check(len(r1) == len(r2), "result-length-differs", {"what": what}, sig)
        for a, b in zip(r1, r2):
            same_result(a, b, what, sig)
        return
    if isinstance(r1, da.Dataset) and isinstance(r2, da.Dataset):
        check(list(r1.keys()) == list(r2.keys()) and tuple(r1.dims) == tuple(r2.dims), "dataset-differs", {"what": what}, sig)
        for k in r1.keys():
            same_result(r1[k], r2[k], what + " var " + str(k), sig)
        return
    if isinstance(r1, np.ndarray) or isinstance(r2, np.ndarray):
        a, b = np.asarray(r1, dtype=object).ravel().tolist(), np.asarray(r2, dtype=object).ravel().tolist()
        check(np.shape(r1) == np.shape(r2) and all(core.same_scalar(x, y, tol=True) or x == y for x, y in zip(a, b)), "array-result-differs", {"what": what, "history": core.jsonable(r1), "fresh": core.jsonable(r2)}, sig)
        return
    ok = core.same_scalar(r1, r2, tol=True) if not isinstance(r1, str) else r1 == r2
    check(ok, "result-differs", {"what": what, "history": core.jsonable(r1), "fresh": core.jsonable(r2)}, sig)


def plain_dims(x):
    return [i for i, ax in enumerate(x.axes) if not grp(ax)]


def _decide(key, f):
    """a per-step branch condition: evaluated on the history-laden array (first call of the step) and reused for its twin"""
    d = _CTX.setdefault("decisions", {})
    if key not in d:
        d[key] = bool(f())
    return d[key]


def _plain(x):
    """no grouped axis of any kind - decided once on the history-laden array (a one-member grouped axis has a plain twin)"""
    if _CTX.get("plain") is not None:
        return _CTX["plain"]
    return not has_group(x) and not real_group(x)


def inplace_dims(x):
    """axes that in-place relabel / rename steps may touch: no grouped axis of any size (renaming or relabelling a
    grouped axis, even a one-member one, desynchronises it from its members: the KF-D25 family)"""
    if _CTX.get("inplace_names") is not None:
        # decided once on the history-laden array, so that the same step touches the same dimension on its twin
        return [i for i, ax in enumerate(x.axes) if ax.name in _CTX["inplace_names"]]
    return [i for i, ax in enumerate(x.axes) if not grp(ax) and not is_grouped(ax)]


_CTX = {}


def pick_label(x, d, k):
    l = x.axes[d].values
    return l[k % len(l)]


# every op: (class tag, inplace?, function(da, x, y, k, m) -> result).  x is the selected pool member (or its twin),
# y a second one.  k, m are small integers.  The same function runs on the history-laden objects and on their twins.

def _label_index(da, x, y, k, m):
    ds = plain_dims(x)
    d = ds[k % len(ds)]
    n = x.shape[d]
    if m >= 8 and _decide("near", lambda: not is_grouped(x.axes[d]) and bool(x.axes[d].is_numeric())):
        # an exact lookup of a label that is NOT on the axis but close to one (IndexError on a fresh array, whatever was asked before)
        near = float(pick_label(x, d, k)) + 0.25
        return x.take(near, axis=d) if m % 2 else x.take([near], axis=d)
    form = m % 4
    if form == 0:
        return x.take(pick_label(x, d, k), axis=d)
    if form == 1:
        return x.take([pick_label(x, d, k), pick_label(x, d, k + 1)], axis=d)
    if form == 2:
        return x.take(slice(pick_label(x, d, k), pick_label(x, d, k + m)), axis=d)
    return x.take(slice(None, pick_label(x, d, k), -1), axis=d)


def _pos_index(da, x, y, k, m):
    d = k % x.ndim
    n = x.shape[d]
    form = m % 4
    if form == 0:
        return x.take_axis([k % n, 0], axis=d, indexing="position")
    if form == 1:
        return x.take(slice(m % 2, None, 1 + k % 2), axis=d, indexing="position")
    if form == 2:
        return x.ix[(slice(None),) * d + (slice(None, None, -1),)]
    return x.take([(k + 1) % n], axis=d, indexing="position")


def _assign(da, x, y, k, m):
    ds = plain_dims(x)
    d = ds[k % len(ds)]
    x.put(pick_label(x, d, k), -7.5 - m, axis=d)
    return None


def _arith(da, x, y, k, m):
    f = [lambda: x + y, lambda: x * y, lambda: y - x, lambda: x * 2.0, lambda: 3 - x, lambda: x + np.ones(x.shape)][m % 6]
    return f()


def _reduce(da, x, y, k, m):
    d = k % x.ndim
    return [lambda: x.sum(axis=d), lambda: x.mean(axis=x.dims[d]), lambda: x.max(axis=d, skipna=True), lambda: x.cumsum(axis=d), lambda: x.diff(axis=d),
            lambda: x.median(axis=d), lambda: x.sum()][m % 7]()


def _reshape(da, x, y, k, m):
    nd = x.ndim
    d = k % nd
    form = m % 7
    if form == 0:
        perm = list(itertools.permutations(range(nd)))[k % len(list(itertools.permutations(range(nd))))]
        return x.transpose(*perm)
    if form == 1:
        return x.swapaxes(0, nd - 1)
    if form == 2:
        return x.newaxis("nw%d" % (k % 3), pos=k % (nd + 1)) if ("nw%d" % (k % 3)) not in x.dims else x.squeeze()
    if form == 3:
        return x.squeeze()
    if form == 4:
        sing = [i for i in range(nd) if x.shape[i] == 1]
        return x.repeat(np.array([5, 6]), axis=sing[k % len(sing)]) if sing else x.rollaxis(d)
    if form == 5:
        return x.broadcast(y) if set(x.dims) <= set(y.dims) else x.rollaxis(d, nd)
    return x.T if nd <= 2 else x.transpose(*range(nd)[::-1])


def _flatten(da, x, y, k, m):
    nd = x.ndim
    form = m % 6
    groups = [ax for ax in x.axes if is_grouped(ax)]
    if has_group(x) and not groups:
        return [int(n) for n in x.shape]        # tuple labels on a plain axis: not grouped again
    if form == 0 and not groups and nd >= 2:
        sub = list(itertools.permutations(x.dims, 2))[k % (nd * (nd - 1))]
        return x.flatten(sub, insert=k % (nd - 1))
    if form == 1 and not groups:
        return x.flatten()
    if form == 2 and groups:
        return x.unflatten()
    if form == 3 and groups:
        return x.unflatten(axis=groups[k % len(groups)].name)
    if form == 4 and not groups and nd >= 2:
        return x.reshape(",".join(x.dims[::-1][:2]), *x.dims[::-1][2:])
    if form == 5 and groups:
        flat = []
        for d in x.dims:
            flat.extend(d.split(","))
        return x.reshape(*flat)
    return x.flatten().labels if not groups else x.unflatten().dims


def _reindex(da, x, y, k, m):
    ds = plain_dims(x)
    d = ds[k % len(ds)]
    labs = x.axes[d].values
    form = m % 7
    if form == 5:
        # sorted by a key that leaves the labels in no monotonic order (positions 1, 3, 0, 2, ... of the sorted labels)
        rank = {core.canon_label(l): (2 * i + 1 if 2 * i + 1 < len(labs) else 2 * (i - (len(labs) + 1) // 2 + (len(labs) % 2 == 0)) ) for i, l in enumerate(sorted(labs.tolist(), key=lambda v: (str(type(v)), v)))}
        return x.sort_axis(d, key=lambda v: rank.get(core.canon_label(v), 0))
    if form == 6:
        return x.sort_axis(d, key=lambda v: -v if not isinstance(v, str) else v)
    if form == 0:
        return x.sort_axis(d)
    if form == 1:
        return x.reindex_axis(labs[::-1].copy(), axis=d)
    if form == 2:
        return x.reindex_axis(list(labs[:1]) + ([labs[0] + 100] if x.axes[d].is_numeric() else ["zz9"]), axis=d)
    if form == 3:
        return x.reindex_like(y)
    return x.dropna(axis=d)


def _align(da, x, y, k, m):
    return da.align([x, y], join=["outer", "inner"][m % 2], sort=bool(k % 2))


def _join(da, x, y, k, m):
    form = m % 4
    if form == 0:
        return da.stack([x, x], axis="stk%d" % (k % 2)) if ("stk%d" % (k % 2)) not in x.dims else da.stack([x, x], axis="stkz")
    if form == 1:
        return da.concatenate([x, x], axis=k % x.ndim)
    if form == 2:
        return da.stack([x, y], axis="stk2", align=True) if "stk2" not in x.dims + y.dims else da.concatenate([x, x], axis=0)
    return da.concatenate([x, y], axis=x.dims[0], align=True)


def _dataset(da, x, y, k, m):
    ds = da.Dataset()
    ds["v"] = x
    if m % 2:
        ds["w"] = x * 2
    def shared(step):
        for key in ds.keys():
            for d in ds[key].dims:
                if ds[key].axes[d] is not ds.axes[d]:
                    raise Violation("axis-not-shared", {"var": key, "dim": d, "after": step}, sig={"op": "dataset"})
                if ds[key].axes[d].size != ds[key].values.shape[ds[key].dims.index(d)]:
                    raise Violation("dataset-variable-malformed", {"var": key, "dim": d, "after": step}, sig={"op": "dataset"})
    shared("insertion")
    pd = _CTX.get("dataset_names")      # decided once on the history-laden array, so that its twin takes the same branch
    if pd is None:
        pd = [x.dims[i] for i in plain_dims(x) if not is_grouped(x.axes[i]) and "," not in x.dims[i]]
    if m >= 6 and pd:
        # relabel through the dataset: a new axis given as bare labels (list / ndarray) or as an Axis, then an in-place change
        d = pd[k % len(pd)]
        n = ds.axes[d].size
        new = [100 + 2 * i for i in range(n)][::-1] if m % 2 else ["L%d" % i for i in range(n)]
        if m % 3 == 0:
            ds.axes[d] = list(new)
        elif m % 3 == 1:
            ds.axes[d] = np.array(new, dtype=object if isinstance(new[0], str) else int)
        else:
            ds.axes[ds.dims.index(d)] = da.Axis(np.array(new, dtype=object if isinstance(new[0], str) else int), d)
        shared("ds.axes[d] = labels")
        if n:
            ds.axes[d][0] = 999 if m % 2 else "zz"
        shared("ds.axes[d][0] = label")
        for key in ds.keys():
            if n and ds[key].axes[d].values[0] != (999 if m % 2 else "zz"):
                raise Violation("dataset-label-change-not-visible", {"var": key, "dim": d}, sig={"op": "dataset"})
    return ds["v"] if k % 2 else ds["w" if m % 2 else "v"]


def _relabel(da, x, y, k, m):
    ds = inplace_dims(x)
    d = ds[k % len(ds)]
    n = x.shape[d]
    form = m % 7
    numeric = x.axes[d].is_numeric()
    if form >= 5:
        # string labels handed to the values setter as a plain list of short words; a later relabelling writes longer ones
        if form == 5:
            x.axes[d].values = [chr(97 + (i + k) % 26) for i in range(n)]
        else:
            x.axes[d].values = ["w%d" % i for i in range(n)]
            x.axes[d][k % n] = "a-much-longer-label-%d" % k
        return None
    if form == 0:
        x.axes[d][k % n] = (500 + k) if numeric else "zz%d" % k
    elif form == 1:
        x.set_axis(np.roll(np.arange(n) * 3 + k, 1) if k % 2 else np.array(["L%d" % i for i in range(n)], dtype=object), axis=d)
    elif form == 2:
        newl = []
        touch = set(inplace_dims(x))      # (decided on the history-laden array, reused for its twin)
        for i, ax in enumerate(x.axes):
            newl.append(np.arange(ax.size) + 10 * i + k if i in touch else ax.values)
        if _plain(x):
            x.labels = newl
        else:
            x.set_axis(np.arange(n) + k, axis=d)
    elif form == 3:
        x.set_axis(lambda v: v, axis=d)
    else:
        x.axes[d].values = np.roll(np.arange(n), 1) + k       # not monotonic for n >= 3
    return None


def _rename(da, x, y, k, m):
    ds = inplace_dims(x)
    d = ds[k % len(ds)]
    # fresh with respect to every live array: the Axis object may be shared with other pool members
    fresh = [f for f in FRESH if f not in _IN_USE and all(f not in nm.split(",") for nm in x.dims)]
    form = m % 3
    if form == 0:
        x.axes[d].name = fresh[k % len(fresh)]
    elif form == 1 and _plain(x):
        x.dims = tuple(fresh[(k + i) % len(fresh)] for i in range(x.ndim)) if len(set(fresh[(k + i) % len(fresh)] for i in range(x.ndim))) == x.ndim else x.dims
    else:
        x.set_axis(name=fresh[(k + 1) % len(fresh)], axis=d)
    return None


def _query(da, x, y, k, m):
    d = k % x.ndim
    if m >= 9 and _decide("tolq", lambda: not grp(x.axes[d]) and not is_grouped(x.axes[d]) and bool(x.axes[d].is_numeric()) and x.shape[d] > 0):
        # nearest-neighbour queries (tol=, .nloc): they must not leave a tolerance behind on the axis
        near = float(x.axes[d].values[k % x.shape[d]]) + 0.25
        r = x.take(near, axis=d, tol=0.5) if m % 2 else x.nloc[(slice(None),) * d + (near,)]
        return np.asarray(r.values if hasattr(r, "values") else r).tolist()
    form = m % 6
    if form == 0:
        return bool(x.axes[d].is_monotonic()) if not grp(x.axes[d]) else int(x.axes[d].size)
    if form == 1:
        return [l.tolist() for l in x.flatten().labels] if not has_group(x) else [l.tolist() for l in x.labels]
    if form == 2:
        return [int(ax.size) for ax in x.axes] + list(x.shape)
    if form == 3:
        return len(repr(x)) > 0          # (the text itself is cosmetic: a one-member grouped axis prints differently)
    if form == 4:
        return [l.tolist() for l in x.labels]
    return len(str(x.axes)) > 0


OPS = [("index", False, _label_index), ("index", False, _pos_index), ("assign", True, _assign), ("arith", False, _arith), ("reduce", False, _reduce),
       ("reshape", False, _reshape), ("flatten", False, _flatten), ("reindex", False, _reindex), ("align", False, _align), ("join", False, _join),
       ("dataset", False, _dataset), ("relabel", True, _relabel), ("rename", True, _rename), ("query", False, _query), ("query", False, _query)]


def strategy(tier):
    maxlen = 20 if tier == "quick" else 30
    step = st.tuples(st.sampled_from(list(range(len(OPS)))), st.integers(0, 5), st.integers(0, 5), st.integers(0, 12), st.integers(0, 12)).map(list)
    arr = gen.array_spec(min_dims=1, max_dims=3, min_size=1, max_size=3, vks="f", kinds="iffs")
    hist = st.fixed_dictionaries({"mode": st.just("history"), "pool": st.lists(arr, min_size=2, max_size=3), "prog": st.lists(step, min_size=1, max_size=maxlen)})
    ctor = st.fixed_dictionaries({"mode": st.just("ctor"), "spec": gen.array_spec(min_dims=0, max_dims=3, min_size=0, max_size=3, vks="fi", hist=False, square=True)})
    return st.one_of(hist, hist, hist, hist, hist, hist, hist, ctor)


def battery(da, h, r, what):
    """cheap probes whose answers depend on cached state; history-laden h vs a fresh twin of its current state"""
    sig = {"op": "battery"}
    lazy = {}

    def both(name, f):
        o1 = e1 = o2 = e2 = None
        try:
            with np.errstate(all="ignore"):
                o1 = f(h)
        except Exception as e:
            e1 = e
        # the twin is built only now: building it reads h's labels, which is itself a (cache-populating) query
        if "t" not in lazy:
            lazy["t"] = twin(da, h)
        t = lazy["t"]
        try:
            with np.errstate(all="ignore"):
                o2 = f(t)
        except Exception as e:
            e2 = e
        del _constructed[:]
        if (e1 is None) != (e2 is None) or (e1 is not None and type(e1) is not type(e2)):
            raise Violation("history-dependent-outcome", {"what": what + " probe " + name, "history": repr(e1)[:200] if e1 else "returned", "fresh": repr(e2)[:200] if e2 else "returned",
                                                          "frame": core.innermost_lib_frame(e1 or e2)}, sig=dict(sig, probe=name, exc=type(e1 or e2).__name__))
        if e1 is None:
            same_result(o1, o2, what + " probe " + name, dict(sig, probe=name))
    for d, ax in enumerate(h.axes):
        if grp(ax):
            n = h.shape[d]
            both("position slice of a grouped axis", lambda z: z.take(slice(0, 2), axis=d, indexing="position"))
            both("take_axis positions on a grouped axis", lambda z: z.take_axis([n - 1, 0], axis=d, indexing="position"))
            continue
        both("is_monotonic", lambda z: bool(z.axes[d].is_monotonic()))
        labs = ax.values
        if len(labs) and labs.dtype.kind in "if":
            other = np.concatenate([labs[::-1][:-1], [labs.max() + 1]])
            both("Axis.union (sorted merge or concatenation)", lambda z: z.axes[d].union(da.Axis(other.copy(), z.axes[d].name)).values)
            both("Axis.union reversed", lambda z: da.Axis(other.copy(), z.axes[d].name).union(z.axes[d]).values)
            if not is_grouped(ax):
                near = float(labs[r % len(labs)]) + 0.25
                if not np.any(np.isclose(labs.astype(float), near)):
                    both("exact lookup of an absent label close to a stored one", lambda z: z.take(near, axis=d))
    sel = r % 4
    if sel == 0 and not has_group(h) and h.ndim >= 2:
        both("flatten().labels", lambda z: [l.tolist() for l in z.flatten().labels])
    elif sel == 1:
        both("sum(axis=0)", lambda z: z.sum(axis=0))
    elif sel == 2 and plain_dims(h):
        d0 = plain_dims(h)[0]
        both("label slice", lambda z: z.take(slice(z.axes[d0].values[0], None), axis=d0))
    elif sel == 3:
        both("repr", lambda z: len(repr(z)) > 0)


def member_of_live_group(pool, axobj):
    for h in pool:
        for ax in h.axes:
            if is_grouped(ax) and any(m is axobj for m in ax.axes):
                return True
    return False


def run_history(case, allow_kf_pattern=False):
    da = core.env.import_dimarray()
    install_wrapper()
    del _constructed[:]
    with core.options(indexing_by="label"):
        pool = [core.build(s) for s in case["pool"]]
        drain("initial pool")
        cl = set()
        queried = set()
        excluded = 0
        for si, (opi, i, j, k, m) in enumerate(case["prog"]):
            tag, inplace, fn = OPS[opi % len(OPS)]
            x = pool[i % len(pool)]
            y = pool[j % len(pool)]
            sig = {"op": tag}
            what = "step %d %s(%d,%d) on pool[%d] dims=%s (second: pool[%d] dims=%s)" % (si, fn.__name__, k, m, i % len(pool), list(x.dims), j % len(pool), list(y.dims))
            if tag in ("relabel", "rename", "assign", "index", "reindex") and not plain_dims(x):
                continue
            _CTX["inplace_names"] = None
            _CTX["decisions"] = {}
            _CTX["plain"] = None
            _CTX["plain"] = _plain(x) if tag in ("relabel", "rename") else None
            _CTX["dataset_names"] = [x.dims[i_] for i_ in plain_dims(x) if not is_grouped(x.axes[i_]) and "," not in x.dims[i_]] if tag == "dataset" else None
            if tag in ("relabel", "rename"):
                names_ = [x.axes[i_].name for i_ in inplace_dims(x)]
                if not names_:
                    continue
                _CTX["inplace_names"] = names_
            if y is not x and (has_group(x) or has_group(y)):
                # binary operations between differently grouped arrays go through reshape(), which parses commas in
                # dimension names: the freshly built equivalent (a plain axis named 'x,y') is outside the stated domain
                y = x
            if tag in ("relabel", "rename") and not allow_kf_pattern:
                ds_ = inplace_dims(x)
                target = x.axes[ds_[k % len(ds_)]]
                touches_all = (tag == "rename" and m % 3 == 1) or (tag == "relabel" and m % 5 == 2)     # x.dims = ... / x.labels = ...
                if any(member_of_live_group(pool, ax) for ax in (list(x.axes) if touches_all else [target])):
                    excluded += 1     # KF-D25 pattern, generated separately (see witnesses)
                    continue
            _IN_USE.clear()
            for h in pool:
                for nm in h.dims:
                    _IN_USE.update(nm.split(","))
            structured = (tag == "flatten" and real_group(x))

            def make_twins():
                a_ = twin(da, x, structured)
                return a_, (twin(da, y) if y is not x else a_)
            if inplace:
                tx, ty = make_twins()      # the step changes x: the twin has to be taken before
            del _constructed[:]

            def state(h):        # values, plain labels and names (read-only: grouped axes are left alone)
                return (np.array(h.values, dtype=object, copy=True), [None if is_grouped(ax) else np.array(ax.values, dtype=object, copy=True) for ax in h.axes],
                        [ax.name for ax in h.axes])
            pre = [] if inplace else [(nm_, h_, state(h_)) for nm_, h_ in (("first", x), ("second", y))]
            # ---- history-laden run
            r1 = e1 = None
            try:
                import contextlib
                with np.errstate(all="ignore"), contextlib.redirect_stdout(core._DEVNULL):
                    r1 = fn(da, x, y, k, m)
            except Violation:
                raise
            except RecursionError as e:
                raise Violation("exception", {"what": what, "type": "RecursionError"}, sig=dict(sig, exc="RecursionError"))
            except Exception as e:
                e1 = e
            nobj = drain(what, sig)
            for nm_, h_, (v0, l0, n0) in pre:
                # a step that is not in-place is a query: the array it ran on must be what it was (a fresh array would be)
                v1, l1, n1 = state(h_)
                same = (v1.shape == v0.shape and all(core.same_scalar(p_, q_) for p_, q_ in zip(v1.ravel().tolist(), v0.ravel().tolist())) and n1 == n0
                        and all((p_ is None and q_ is None) or (p_ is not None and q_ is not None and p_.tolist() == q_.tolist()) for p_, q_ in zip(l1, l0)))
                if not same:
                    raise Violation("operand-changed-by-a-non-in-place-step", {"what": what, "operand": nm_, "before": core.jsonable(v0), "after": core.jsonable(v1),
                                                                               "names": [n0, n1]}, sig=dict(sig, kind_="operand"))
            if not inplace:
                tx, ty = make_twins()      # taken after the history-laden run: building a twin reads labels (a query)
                del _constructed[:]
            # ---- fresh-twin run
            r2 = e2 = None
            try:
                with np.errstate(all="ignore"), contextlib.redirect_stdout(core._DEVNULL):
                    r2 = fn(da, tx, ty, k, m)
            except Violation:
                raise
            except Exception as e:
                e2 = e
            del _constructed[:]
            if isinstance(e1, NotImplementedError) and real_group(x) or (y is not x and isinstance(e1, NotImplementedError) and real_group(y)):
                cl.add("refused:NotImplementedError-on-grouped-axis")   # an explicit refusal (MultiAxis.sort), not stale state
                continue
            if (e1 is None) != (e2 is None) or (e1 is not None and type(e1) is not type(e2)):
                raise Violation("history-dependent-outcome", {"what": what, "history": repr(e1)[:200] if e1 else "returned " + str(core.brief(r1))[:300],
                                                              "fresh": repr(e2)[:200] if e2 else "returned " + str(core.brief(r2))[:300],
                                                              "frame": core.innermost_lib_frame(e1 or e2)}, sig=dict(sig, exc=type(e1 or e2).__name__))
            if e1 is None:
                # results that carry a grouped axis are probed before anything has read their (lazily built) labels
                for r in ([r1] if isinstance(r1, da.DimArray) else []):
                    for d, ax in enumerate(r.axes):
                        if is_grouped(ax) and r.shape[d] >= 1:
                            n = r.shape[d]
                            o1 = lib(lambda: r.take_axis([n - 1, 0], axis=d, indexing="position"), what=what + " [position take_axis on the freshly grouped result]", sig=dict(sig, probe="fresh-grouped"))
                            o2 = twin(da, r).take_axis([n - 1, 0], axis=d, indexing="position")
                            same_result(o1, o2, what + " [position take_axis on the freshly grouped result]", sig)
                            break
                same_result(r1, r2, what, sig)
                if inplace:
                    same_result(x, tx, what + " [array after the in-place step]", sig)
                    wellformed(x, what, sig)
                cl.add("step:" + tag)
                if tag == "query":
                    queried.add(id(x))
                if tag in ("relabel", "index") and id(x) in queried:
                    cl.add("query-then-relabel")
                results = [r1] if isinstance(r1, da.DimArray) else [r for r in r1 if isinstance(r, da.DimArray)] if isinstance(r1, (list, tuple)) else []
                for r in results:
                    wellformed(r, what + " [returned array]", sig)
                    if r.ndim >= 1 and r.size <= 64 and all(n >= 1 for n in r.shape):
                        if len(pool) < 6:
                            pool.append(r)
                        else:
                            pool[(si + k) % 6] = r
            # ---- after the step: every pool member against a twin rebuilt from its *current* state
            for pi, h in enumerate(pool):
                battery(da, h, (k + si + pi), what + " [probe battery on pool[%d] dims=%s]" % (pi, list(h.dims)))
            # ---- invariants over the pool
            axids = {}
            for h in pool:
                wellformed(h, what + " [pool member]", sig)
                if has_group(h):
                    cl.add("grouped-axis-in-pool")
                for ax in h.axes:
                    axids.setdefault(id(ax), set()).add(id(h))
            if any(len(v) > 1 for v in axids.values()):
                cl.add("shared-axis-objects")
    nontrivial = "query-then-relabel" in cl or "shared-axis-objects" in cl
    return {"classes": sorted(cl), "nontrivial": nontrivial, "excluded": excluded}


def witnesses():
    # f = a.flatten(); f.labels (read); a.axes['x'][0] = 99 (in place, through the source array); probe f.labels
    return [("KF-D25", {"mode": "kf-d25"})]


def run_kf(case):
    da = core.env.import_dimarray()
    a = core.build({"dims": ["x", "y"], "labels": [[1, 2], [5, 6]], "vk": "f", "base": 0})
    f = a.flatten()
    f.labels                      # query: populates the grouped axis' label cache
    a.axes["x"][0] = 99           # in-place relabel of a member axis (shared with the source array)
    t = twin(da, f)
    got, exp = f.labels[0].tolist(), t.labels[0].tolist()
    check(got == exp, "history-dependent-outcome", {"what": "f = a.flatten(); f.labels; a.axes['x'][0] = 99; f.labels", "history": core.jsonable(got), "fresh": core.jsonable(exp)},
          {"op": "grouped-axis-cache", "pattern": "relabel-member-of-live-grouped-axis"})
    return {"classes": [], "nontrivial": False}


def run_case(case):
    if case["mode"] == "ctor":
        return run_ctor(case)
    if case["mode"] == "kf-d25":
        return run_kf(case)
    return run_history(case)
