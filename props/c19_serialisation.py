"""C19 - Serialisation round-trips: JSON and netCDF.

Statement: "Writing a DimArray or Dataset and reading it back yields equal data: from_json(to_json(a)) restores
values, dims, labels and JSON-representable metadata, and read_nc of a file written with write_nc restores every
variable's values (NaN included) and dtype kind, its dimension names and order, the axis labels (numbers and
strings), and the metadata at dataset, variable and axis level.  Appending a variable to an existing file
(mode='a') keeps what was already there, and writing never changes the in-memory object."

Oracle: round trip against an in-memory model accumulated over a generated write program.  The netCDF4 C binding
is absent from the sandbox: dimarray.io.nc runs on vlib/fake_netcdf4 (a file-backed model of the API subset it uses).
"""
import collections
import copy as _copy
import os
import shutil
import tempfile

import numpy as np
from hypothesis import strategies as st

from vlib import core, gen
from vlib.core import lib, check, Violation

ID = "C19"
FAKE_NETCDF = True
TITLE = "Serialisation round-trips: JSON and netCDF"
RULE = ("JSON: generated arrays of 0-3 dims (float without NaN, int, str, bool values; int/float/str labels in any order; JSON-representable "
        "attrs): from_json(to_json(a)) == a.  netCDF (stand-in): generated write programs of 1-6 steps over one file: Dataset.write_nc (0-4 "
        "variables, 0-d to 3-d, float with NaN / int64 / int32 / str values, shared and unshared dims with int/float/str labels in any "
        "order, str/int/float/list attrs on dataset, variable and axis level), DimArray.write_nc(name, mode='w'|'a'|'a+'), "
        "open_nc(f, 'w'|'a')[name] = array, attribute writes through the on-disk handles; formats NETCDF4 and NETCDF3_CLASSIC (numeric "
        "only); after every step read_nc(f) (whole file and single variables) is compared with the model and the written in-memory "
        "objects with their snapshots.  Non-trivial: >= 2 variables with differing dim sets, or an append step, or str data / labels, or "
        "attrs on >= 2 levels.")
ASSUMPTIONS = [
    "a variable whose metadata hold missing_value is created with that fill value and reads back with the reserved attribute _FillValue in addition (netCDF convention): tolerated",
    "vlib/fake_netcdf4 stands in for netCDF4-python + libnetcdf (orthogonal indexing, vlen str, unlimited dims, masked never-written cells, NETCDF3 restrictions); nothing is shown about the real C library",
    "reads return plain ndarrays when no cell is missing (netCDF4 < 1.4 / set_always_mask(False) behaviour)",
    "attrs compared with array equality (netCDF returns 1-element arrays as scalars and lists as arrays)",
    "variable names are disjoint from dimension names; appended variables reuse the file's labels on shared dimensions",
]
MANDATORY = ["json:non-representable-metadata-first", "json:non-representable-metadata-last", "nc:rewrite-dataset", "nc:rewrite-variable", "json", "json:str-values", "json:0d", "nc:dataset-write", "nc:dataset-append", "nc:append-a", "nc:append-a+", "nc:open_nc-set", "nc:attr-write", "nc:NETCDF3",
             "nc:str-labels", "nc:str-values", "nc:nan", "nc:int32", "nc:0d", "nc:attrs-3-levels", "nc:unsorted-labels", "nc:dims-differ"]


def budget(tier):
    return {"quick": dict(examples=1200, shards=1), "thorough": dict(examples=6000, shards=16)}[tier]


# ----------------------------------------------------------------------------------------------
# generators
# ----------------------------------------------------------------------------------------------

json_attr = st.one_of(st.sampled_from(["m", "some text", ""]), st.integers(-5, 5), st.sampled_from([0.5, -2.25, 1e-3]), st.booleans(), st.none(),
                      st.lists(st.integers(0, 4), max_size=3), st.fixed_dictionaries({"k": st.lists(st.sampled_from(["a", 1, 2.5]), max_size=2)}))
nc_attr = st.one_of(st.sampled_from(["m", "some text", "K"]), st.integers(-5, 5), st.sampled_from([0.5, -2.25]), st.lists(st.integers(0, 4), min_size=2, max_size=3),
                    st.lists(st.sampled_from([0.5, 1.5, 2.0]), min_size=2, max_size=3), st.just([]))      # (an empty list is an entry too: it reads back as an empty array)
attr_names = st.sampled_from(["units", "long_name", "comment", "scale", "history", "note", "name"])


@st.composite
def json_case(draw):
    spec = draw(gen.array_spec(min_dims=0, max_dims=3, min_size=1, max_size=3, vks="fisb"))
    spec["attrs"] = draw(st.dictionaries(attr_names, json_attr, max_size=3))
    # metadata that JSON cannot represent (as a file read leaves them: NumPy integers, arrays), stored before or after the representable ones
    return {"mode": "json", "spec": spec, "nonjson": draw(st.sampled_from([None, None, "first", "last"]))}


@st.composite
def nc_variable(draw, dimlabels, numeric_only, name):
    """variable over a subset of the file's dims (existing labels) plus possibly new dims"""
    existing = list(dimlabels)
    k = draw(st.integers(0, min(3, len(existing))))
    dims = list(draw(st.permutations(existing)))[:k]
    labels = [dimlabels[d] for d in dims]
    newnames = [d for d in ["x", "y", "z", "w", "t"] if d not in dimlabels]
    while len(dims) < 3 and newnames and draw(st.integers(0, 2)) == 0:
        d = newnames.pop(0)
        dims.append(d)
        labels.append(draw(gen.labels(draw(st.integers(1, 3)), kinds="if" if numeric_only else "ifs")))
    order = draw(st.permutations(list(range(len(dims)))))
    dims = [dims[i] for i in order]
    labels = [labels[i] for i in order]
    vk = draw(st.sampled_from(["f", "f", "i", "i32"] + ([] if numeric_only else ["s"])))
    spec = {"dims": dims, "labels": labels, "vk": "i" if vk == "i32" else vk, "base": draw(st.integers(0, 30))}
    if vk == "i32":
        spec["dtype"] = "int32"
    n = int(np.prod([len(l) for l in labels])) if labels else 1
    if vk == "f" and draw(st.booleans()):
        spec["nan"] = draw(st.lists(st.integers(0, n - 1), min_size=1, max_size=max(1, n // 2), unique=True))
    spec["attrs"] = draw(st.dictionaries(attr_names, nc_attr, max_size=2))
    if vk in ("f", "i", "i32") and draw(st.integers(0, 5)) == 0:
        # the conventional missing_value metadata (a number that this variable's own data never take; -1 may well be a label or a value elsewhere)
        spec["attrs"]["missing_value"] = -1 if vk != "f" else -1.0
    if len(dims) >= 2 and "dtype" not in spec:
        spec["hist"] = draw(st.sampled_from([{"mode": "none"}, {"mode": "none"}, {"mode": "transposed"}, {"mode": "fortran"}, {"mode": "warm"}]))     # storage layout of the values
    return [name, spec]


@st.composite
def nc_case(draw):
    fmt = draw(st.sampled_from(["NETCDF4", "NETCDF4", "NETCDF3_CLASSIC"]))
    numeric = fmt != "NETCDF4"
    steps = []
    dimlabels = collections.OrderedDict()
    names = ["va", "vb", "vc", "vd", "ve", "vf", "vg", "vh"]
    used = 0
    nsteps = draw(st.integers(1, 6))
    for si in range(nsteps):
        kinds = ["ds_write", "da_write_w"] if si == 0 else ["ds_write", "da_write_a", "da_write_a", "da_write_a+", "open_set", "open_set", "attr", "da_write_w",
                                                              "ds_append", "ds_append"]
        kind = draw(st.sampled_from(kinds))
        if kind == "ds_write":
            dimlabels = collections.OrderedDict()
            nv = draw(st.integers(0, 4))
            vs = []
            for j in range(nv):
                v = draw(nc_variable(dimlabels, numeric, names[j]))
                for d, l in zip(v[1]["dims"], v[1]["labels"]):
                    dimlabels.setdefault(d, l)
                vs.append(v)
            used = nv
            axattrs = {d: draw(st.dictionaries(attr_names, nc_attr, max_size=2)) for d in dimlabels if draw(st.booleans())}
            steps.append({"k": kind, "vars": vs, "attrs": draw(st.dictionaries(attr_names, nc_attr, max_size=2)), "axattrs": axattrs, "format": fmt})
        elif kind == "da_write_w":
            dimlabels = collections.OrderedDict()
            v = draw(nc_variable(dimlabels, numeric, names[0]))
            for d, l in zip(v[1]["dims"], v[1]["labels"]):
                dimlabels.setdefault(d, l)
            used = 1
            steps.append({"k": kind, "var": v, "format": fmt})
        elif kind == "ds_append":
            # Dataset.write_nc(mode='a' | 'a+') on the existing file: what is there stays, the new variables are added
            nv = draw(st.integers(1, 2))
            if used + nv > len(names):
                continue
            vs = []
            for j in range(nv):
                v = draw(nc_variable(dimlabels, numeric, names[used + j]))
                for d, l in zip(v[1]["dims"], v[1]["labels"]):
                    dimlabels.setdefault(d, l)
                vs.append(v)
            used += nv
            steps.append({"k": kind, "vars": vs, "attrs": draw(st.dictionaries(attr_names, nc_attr, max_size=1)), "wmode": draw(st.sampled_from(["a", "a+"])),
                          "alias": draw(st.integers(0, 2)) == 0})
        elif kind in ("da_write_a", "da_write_a+", "open_set"):
            if used >= len(names):
                continue
            v = draw(nc_variable(dimlabels, numeric, names[used]))
            for d, l in zip(v[1]["dims"], v[1]["labels"]):
                dimlabels.setdefault(d, l)
            used += 1
            steps.append({"k": kind, "var": v, "axattrs": {d: draw(st.dictionaries(attr_names, nc_attr, max_size=1)) for d in v[1]["dims"] if draw(st.integers(0, 3)) == 0}})
        else:
            steps.append({"k": "attr", "level": draw(st.sampled_from(["dataset", "variable", "axis"])), "which": draw(st.integers(0, 7)),
                          "name": draw(attr_names), "value": draw(nc_attr)})
    return {"mode": "nc", "steps": steps, "rewrite": draw(st.sampled_from([None, None, "ds", "var"]))}


def strategy(tier):
    return st.one_of(json_case(), nc_case(), nc_case(), nc_case())


# ----------------------------------------------------------------------------------------------
# helpers
# ----------------------------------------------------------------------------------------------

def build_var(spec):
    a = core.build(spec)
    if spec.get("dtype"):
        a = core.env.import_dimarray().DimArray(a.values.astype(spec["dtype"]), axes=[ax.copy() for ax in a.axes], **{})
        a.attrs.update(_copy.deepcopy(spec.get("attrs", {})))
    return a


def attr_equal(got, exp):
    if isinstance(exp, str) or isinstance(got, str):
        return isinstance(got, str) and isinstance(exp, str) and got == exp
    try:
        g, e = np.asarray(got).ravel(), np.asarray(exp).ravel()
        return g.shape == e.shape and bool(np.all(g == e))
    except Exception:
        return False


def attrs_match(got, exp, what, sig):
    got = dict(got)
    if "missing_value" in exp and "_FillValue" in got and "_FillValue" not in exp and attr_equal(got["_FillValue"], exp["missing_value"]):
        # netCDF convention: a variable created with its missing_value as fill value carries the reserved attribute _FillValue as well
        got.pop("_FillValue")
    check(sorted(got.keys()) == sorted(exp.keys()), "attrs-keys", {"what": what, "got": core.jsonable(got), "expected": core.jsonable(exp)}, sig)
    for k, v in exp.items():
        check(attr_equal(got[k], v), "attrs-value", {"what": what, "key": k, "got": core.jsonable(got[k]), "expected": core.jsonable(v)}, sig)


def kind_of(dtype):
    k = np.dtype(dtype).kind
    return "s" if k in "OUS" else k


class FileModel(object):
    def __init__(self, fmt):
        self.fmt = fmt
        self.vars = collections.OrderedDict()    # name -> (dims, labels, values ndarray, attrs)
        self.dims = collections.OrderedDict()    # dim -> labels
        self.axattrs = {}
        self.attrs = {}

    def add(self, name, spec, arr):
        for d, l in zip(spec["dims"], spec["labels"]):
            if d not in self.dims:
                self.dims[d] = list(l)
        self.vars[name] = (list(spec["dims"]), [list(l) for l in spec["labels"]], np.array(arr.values, copy=True), dict(spec.get("attrs", {})))


def compare_var(got, exp, what, sig, fmt):
    da = core.env.import_dimarray()
    dims, labels, vals, attrs = exp
    check(isinstance(got, da.DimArray) or not dims, "not-a-dimarray", {"what": what, "got": core.brief(got)}, sig)
    if not dims:
        g = got.values if isinstance(got, da.DimArray) else got
        check(core.same_scalar(np.asarray(g).item(), vals.item()), "value", {"what": what, "got": core.jsonable(g), "expected": core.jsonable(vals)}, sig)
        if isinstance(got, da.DimArray):
            attrs_match(got.attrs, attrs, what, sig)
        return
    check(list(got.dims) == dims, "dims", {"what": what, "got": list(got.dims), "expected": dims}, sig)
    for i, d in enumerate(dims):
        check(core.same_labels(got.axes[i].values, labels[i]), "labels", {"what": what, "dim": d, "got": core.jsonable(got.axes[i].values), "expected": labels[i]}, sig)
        ek = core.label_kind(labels[i])
        gk = kind_of(got.axes[i].values.dtype)
        check(gk == {"i": "i", "f": "f", "s": "s"}[ek], "label-kind", {"what": what, "dim": d, "got": str(got.axes[i].values.dtype), "expected_kind": ek}, sig)
    g = np.asarray(got.values, dtype=object)
    e = np.asarray(vals, dtype=object)
    check(g.shape == e.shape and all(core.same_scalar(x, y) for x, y in zip(g.ravel().tolist(), e.ravel().tolist())), "values",
          {"what": what, "got": core.jsonable(g), "expected": core.jsonable(e)}, sig)
    check(kind_of(got.values.dtype) == kind_of(vals.dtype), "value-kind", {"what": what, "got": str(got.values.dtype), "expected": str(vals.dtype)}, sig)
    attrs_match(got.attrs, attrs, what, sig)


def compare_file(path, m, what, sig):
    da = core.env.import_dimarray()
    r = lib(lambda: da.read_nc(path), what=what + " read_nc(file)", sig=sig)
    check(isinstance(r, da.Dataset), "not-a-dataset", {"what": what}, sig)
    check(list(r.keys()) == list(m.vars.keys()), "keys", {"what": what, "got": list(r.keys()), "expected": list(m.vars.keys())}, sig)
    check(list(r.dims) == list(m.dims.keys()), "dataset-dims", {"what": what, "got": list(r.dims), "expected": list(m.dims.keys())}, sig)
    for d, l in m.dims.items():
        check(core.same_labels(r.axes[d].values, l), "dataset-labels", {"what": what, "dim": d, "got": core.jsonable(r.axes[d].values), "expected": l}, sig)
        attrs_match(r.axes[d].attrs, m.axattrs.get(d, {}), what + " axis attrs of " + d, sig)
    attrs_match(r.attrs, m.attrs, what + " dataset attrs", sig)
    for name, exp in m.vars.items():
        compare_var(r[name], exp, what + " var " + name, sig, m.fmt)
        single = lib(lambda: da.read_nc(path, name), what=what + " read_nc(file, %r)" % name, sig=sig)
        compare_var(single, exp, what + " single read of " + name, sig, m.fmt)
    core.check_shared_axes(r, what, sig)
    # partial reads: a list / tuple of names gives a Dataset of exactly those variables over exactly their dimensions
    names = list(m.vars.keys())
    for sub in ([names[-1:], tuple(names[:1]), names[::2]] if names else []):
        sub = list(sub)
        part = lib(lambda: da.read_nc(path, sub if len(sub) != 1 or sub == names[-1:] else tuple(sub)), what=what + " read_nc(file, %r)" % (sub,), sig=sig)
        check(isinstance(part, da.Dataset) and list(part.keys()) == sub, "partial-read-keys", {"what": what, "names": sub, "got": list(part.keys()) if hasattr(part, "keys") else repr(type(part))}, sig)
        used = []
        for n_ in sub:
            compare_var(part[n_], m.vars[n_], what + " partial read %r var %s" % (sub, n_), sig, m.fmt)
            for d_ in m.vars[n_][0]:
                if d_ not in used:
                    used.append(d_)
        check(sorted(part.dims) == sorted(used), "partial-read-dims", {"what": what, "names": sub, "got": list(part.dims), "expected_set": used}, sig)
        core.check_shared_axes(part, what + " partial read %r" % (sub,), sig)


# ----------------------------------------------------------------------------------------------

def run_json(case):
    da = core.env.import_dimarray()
    spec = case["spec"]
    a = core.build(spec)
    if case.get("nonjson"):
        extra = {"count_": np.int64(3), "set_": {1, 2}}
        keep = dict(a.attrs)
        a.attrs.clear()
        a.attrs.update(dict(list(extra.items()) + list(keep.items())) if case["nonjson"] == "first" else dict(list(keep.items()) + list(extra.items())))
    snap = core.snapshot(a)
    what = "from_json(to_json(a)) dims=%s labels=%s vk=%s attrs=%s" % (spec["dims"], spec["labels"], spec["vk"], core.jsonable(spec.get("attrs", {})))
    sig = {"mode": "json"}
    s = lib(lambda: a.to_json(), what=what, sig=sig)
    check(isinstance(s, str), "to_json-not-a-string", {"what": what}, sig)
    b = lib(lambda: da.DimArray.from_json(s), what=what, sig=sig)
    core.expect_equal_arrays(b, a, what, sig=sig)
    # the dictionary-level entry points: to_jsondict() / from_jsondict(); the dictionary handed in is the caller's and can be used again
    import json as _json
    jd = _json.loads(s)
    jd_before = _json.dumps(jd, sort_keys=True)
    b2 = lib(lambda: da.DimArray.from_jsondict(jd), what=what + " [from_jsondict(json.loads(to_json()))]", sig=sig)
    core.expect_equal_arrays(b2, a, what + " [from_jsondict]", sig=sig)
    check(_json.dumps(jd, sort_keys=True) == jd_before, "jsondict-argument-modified", {"what": what, "now": sorted(jd.keys())}, sig)
    b3 = lib(lambda: da.DimArray.from_jsondict(jd), what=what + " [from_jsondict, same dictionary again]", sig=sig)
    core.expect_equal_arrays(b3, a, what + " [from_jsondict, same dictionary again]", sig=sig)
    for d_, la, lb in zip(spec["dims"], a.labels, b.labels):
        # labels are restored as what they were: float labels stay floats (0.0 is not 0), strings stay strings
        ka, kb = ("s" if la.dtype.kind in "OUS" else la.dtype.kind), ("s" if lb.dtype.kind in "OUS" else lb.dtype.kind)
        check(ka == kb or len(la) == 0, "json-label-kind", {"what": what, "dim": d_, "got": str(lb.dtype), "expected": str(la.dtype)}, sig)
    got_attrs = {k_: v_ for k_, v_ in dict(b.attrs).items() if k_ not in ("count_", "set_")}     # (the statement speaks of the JSON-representable entries only)
    check(core.attrs_equal(got_attrs, spec.get("attrs", {})), "json-attrs", {"what": what + (" [+ non-JSON entries stored %s]" % case["nonjson"] if case.get("nonjson") else ""),
                                                                              "got": core.jsonable(b.attrs), "expected": core.jsonable(spec.get("attrs", {}))}, sig)
    core.expect_unchanged(a, snap, what, sig)
    cl = ["json"] + (["json:non-representable-metadata-" + case["nonjson"]] if case.get("nonjson") and spec.get("attrs") else []) + (["json:str-values"] if spec["vk"] == "s" else []) + (["json:0d"] if not spec["dims"] else [])
    return {"classes": cl, "nontrivial": bool(spec["dims"])}


def run_nc(case):
    da = core.env.import_dimarray()
    tmp = tempfile.mkdtemp(prefix="dimarray-c19-")
    path = os.path.join(tmp, "f.nc")
    cl = set()
    nontrivial = False
    try:
        m = None
        for si, step in enumerate(case["steps"]):
            k = step["k"]
            sig = {"mode": "nc", "step": k}
            what = "step %d %s" % (si, k)
            if k == "ds_write":
                ds = da.Dataset()
                arrs = []
                for name, spec in step["vars"]:
                    arr = build_var(spec)
                    ds[name] = arr
                    arrs.append((name, spec, arr))
                ds.attrs.update(_copy.deepcopy(step["attrs"]))
                for d, at in step["axattrs"].items():
                    if d in ds.dims:
                        ds.axes[d].attrs.update(_copy.deepcopy(at))
                snap = core.snapshot_dataset(ds)
                axsnap = {d: _copy.deepcopy(dict(ds.axes[d].attrs)) for d in ds.dims}
                what += " Dataset(%s).write_nc(format=%s)" % (core.jsonable([[n, s["dims"], s["labels"], s["vk"]] for n, s in step["vars"]]), step["format"])
                lib(lambda: ds.write_nc(path, format=step["format"]), what=what, sig=sig)
                check(core.snapshot_dataset(ds) == snap and {d: dict(ds.axes[d].attrs) for d in ds.dims} == axsnap, "in-memory-dataset-changed-by-writing", {"what": what}, sig)
                m = FileModel(step["format"])
                for d in ds.dims:
                    m.dims[d] = ds.axes[d].values.tolist()
                for name, spec, arr in arrs:
                    m.add(name, spec, arr)
                m.attrs = dict(step["attrs"])
                m.axattrs = {d: dict(at) for d, at in step["axattrs"].items() if d in ds.dims}
                cl.add("nc:dataset-write")
            elif k == "ds_append":
                ds = da.Dataset()
                arrs = []
                for name, spec in step["vars"]:
                    arr = build_var(spec)
                    ds[name] = arr
                    arrs.append((name, spec, arr))
                ds.attrs.update(_copy.deepcopy(step["attrs"]))
                # the appended Dataset's own axes carry metadata too: dimensions that the file already has keep what is there, new ones bring theirs
                app_ax = {}
                for d_ in ds.dims:
                    ds.axes[d_].attrs.update({"units": "appended-%s" % d_, "extra_": 1})
                    if d_ not in m.dims:
                        app_ax[d_] = {"units": "appended-%s" % d_, "extra_": 1}
                snap = core.snapshot_dataset(ds)
                what += " Dataset(%s).write_nc(mode=%r)" % (core.jsonable([[n, s_["dims"], s_["labels"], s_["vk"]] for n, s_ in step["vars"]]), step["wmode"])
                if step.get("alias") and hasattr(ds, "write"):
                    # the older spelling Dataset.write(f, mode=...) of the same call
                    import warnings as _w
                    def _alias():
                        with _w.catch_warnings():
                            _w.simplefilter("ignore")
                            return ds.write(path, mode=step["wmode"])
                    lib(_alias, what=what + " [Dataset.write alias]", sig=sig)
                    cl.add("nc:dataset-append-through-write-alias")
                else:
                    lib(lambda: ds.write_nc(path, mode=step["wmode"]), what=what, sig=sig)
                check(core.snapshot_dataset(ds) == snap, "in-memory-dataset-changed-by-writing", {"what": what}, sig)
                for name, spec, arr in arrs:
                    m.add(name, spec, arr)
                m.attrs.update(dict(step["attrs"]))
                m.axattrs.update(app_ax)
                cl.add("nc:dataset-append")
                nontrivial = True
            elif k in ("da_write_w", "da_write_a", "da_write_a+", "open_set"):
                name, spec = step["var"]
                arr = build_var(spec)
                for d, at in step.get("axattrs", {}).items():
                    arr.axes[d].attrs.update(_copy.deepcopy(at))
                snap = core.snapshot(arr)
                what += " %s dims=%s labels=%s vk=%s" % (name, spec["dims"], spec["labels"], spec["vk"])
                if k == "da_write_w":
                    lib(lambda: arr.write_nc(path, name, mode="w", format=step["format"]), what=what, sig=sig)
                    m = FileModel(step["format"])
                elif k == "da_write_a":
                    lib(lambda: arr.write_nc(path, name, mode="a"), what=what, sig=sig)
                    cl.add("nc:append-a")
                elif k == "da_write_a+":
                    lib(lambda: arr.write_nc(path, name, mode="a+"), what=what, sig=sig)
                    cl.add("nc:append-a+")
                else:
                    def f():
                        h = da.open_nc(path, "a")
                        try:
                            h[name] = arr
                        finally:
                            h.close()
                    lib(f, what=what, sig=sig)
                    cl.add("nc:open_nc-set")
                core.expect_unchanged(arr, snap, what + " [written array]", sig)
                newdims = [d for d in spec["dims"] if d not in m.dims]
                m.add(name, spec, arr)
                for d, at in step.get("axattrs", {}).items():
                    if d in newdims:      # axis metadata is written when the dimension is created
                        m.axattrs[d] = dict(at)
                if k != "da_write_w":
                    nontrivial = True
            elif k == "attr":
                if m is None:
                    continue
                level, nm, val = step["level"], step["name"], step["value"]
                if m.fmt != "NETCDF4" and isinstance(val, list) and val and isinstance(val[0], str):
                    continue

                def f():
                    h = da.open_nc(path, "a")
                    try:
                        if level == "dataset":
                            h.attrs[nm] = val
                        elif level == "variable" and m.vars:
                            h[list(m.vars)[step["which"] % len(m.vars)]].attrs[nm] = val
                        elif level == "axis" and m.dims:
                            h.axes[list(m.dims)[step["which"] % len(m.dims)]].attrs[nm] = val
                    finally:
                        h.close()
                lib(f, what=what + " %s %s=%r" % (level, nm, val), sig=sig)
                if level == "dataset":
                    m.attrs[nm] = val
                elif level == "variable" and m.vars:
                    m.vars[list(m.vars)[step["which"] % len(m.vars)]][3][nm] = val
                elif level == "axis" and m.dims:
                    m.axattrs.setdefault(list(m.dims)[step["which"] % len(m.dims)], {})[nm] = val
                cl.add("nc:attr-write")
            compare_file(path, m, what, sig)
            # classes
            if m.fmt != "NETCDF4":
                cl.add("nc:NETCDF3")
            for name, (dims, labels, vals, attrs) in m.vars.items():
                if any(core.label_kind(l) == "s" for l in labels if l):
                    cl.add("nc:str-labels")
                if any(gen.order_of(l) in ("shuf", "dec") for l in labels):
                    cl.add("nc:unsorted-labels")
                if kind_of(vals.dtype) == "s":
                    cl.add("nc:str-values")
                if vals.dtype == np.dtype("int32"):
                    cl.add("nc:int32")
                if vals.dtype.kind == "f" and np.isnan(vals).any():
                    cl.add("nc:nan")
                if not dims:
                    cl.add("nc:0d")
            if len({tuple(v[0]) for v in m.vars.values()}) >= 2:
                cl.add("nc:dims-differ")
                nontrivial = True
            levels = int(bool(m.attrs)) + int(any(v[3] for v in m.vars.values())) + int(any(m.axattrs.values()))
            if levels >= 3:
                cl.add("nc:attrs-3-levels")
            if levels >= 2 or "nc:str-values" in cl or "nc:str-labels" in cl:
                nontrivial = True
        if m is not None and case.get("rewrite"):
            # second generation: what was read from the file is written to another file (a Dataset / DimArray like any other) and must read back equal again
            sig = {"mode": "nc", "step": "rewrite"}
            path2 = os.path.join(tmp, "g.nc")
            r1 = lib(lambda: da.read_nc(path), what="read_nc(file) before re-writing", sig=sig)
            lib(lambda: r1.write_nc(path2, format=m.fmt), what="read_nc(file).write_nc(other file, format=%s)" % m.fmt, sig=sig)
            compare_file(path2, m, "file written from the Dataset read from the first file", sig)
            cl.add("nc:rewrite-dataset")
            if m.vars and case["rewrite"] == "var":
                name = list(m.vars)[-1]
                path3 = os.path.join(tmp, "h.nc")
                v1 = lib(lambda: da.read_nc(path, name), what="read_nc(file, %r) before re-writing" % name, sig=sig)
                if isinstance(v1, da.DimArray):
                    lib(lambda: v1.write_nc(path3, name, mode="w", format=m.fmt), what="read_nc(file, %r).write_nc(other file)" % name, sig=sig)
                    back = lib(lambda: da.read_nc(path3, name), what="read back the re-written variable %r" % name, sig=sig)
                    compare_var(back, m.vars[name], "variable %r written from the DimArray read from the first file" % name, sig, m.fmt)
                    if back.ndim:
                        for d in back.dims:
                            attrs_match(back.axes[d].attrs, m.axattrs.get(d, {}), "axis attrs of %s after re-writing variable %r" % (d, name), sig)
                    cl.add("nc:rewrite-variable")
    finally:
        shutil.rmtree(tmp, ignore_errors=True)
    return {"classes": sorted(cl), "nontrivial": nontrivial}


def run_case(case):
    return run_json(case) if case["mode"] == "json" else run_nc(case)
