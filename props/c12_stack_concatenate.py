"""C12 - stack and concatenate join arrays without misaligning them.

Statement: "stack(arrays, axis=new, keys) returns an array whose first dimension is the new axis labelled by
keys and whose slice at key k holds exactly the labelled data of arrays[k]; concatenate(arrays, axis=d) returns
NumPy's concatenation along d with that axis' labels concatenated in the same order and the other axes
unchanged.  Inputs are matched by dimension name and label, never by position: when their other axes carry
different labels, or the same labels in a different order, both functions raise ValueError unless align=True,
in which case those axes are first aligned (outer join) and each input's data stays at its own labels, and when
only the order of the dimensions differs between inputs they are either reordered by name or refused."

Oracle: per key / per segment coordinate comparison on the dict model (label-wise, independent of each input's
storage order); prescribed ValueError for unaligned inputs.
"""
import numpy as np
from hypothesis import strategies as st

from vlib import core, gen
from vlib.core import lib, check, Violation

ID = "C12"
TITLE = "stack and concatenate join arrays without misaligning them"
RULE = ("generated lists / tuples / dicts of 1-4 arrays over the same set of 1-3 dimensions; per input the dimension order is kept or "
        "permuted (square shapes on purpose) and every secondary axis is equal | permuted | subset | superset | overlapping | disjoint "
        "relative to the first input's (single-label axes included); keys int / str / default; stack(axis=new) and concatenate(axis=name|pos); "
        "align in {False, True} x sort in {False, True}.  Non-trivial: >= 2 inputs and (a secondary axis differs, or the dimension order "
        "differs, or align=True).")
ASSUMPTIONS = [
    "oracle: dict model per input; moved values compared exactly",
    "differing dimension order without align: an exception of any type or a label-wise correct result are both accepted (statement: 'reordered by name or refused')",
    "order of aligned (outer-join) secondary labels is not asserted unless sort=True",
]
MANDATORY = ["call:positional", "inputs:joined-before-under-other-labels", "dtype-checked:i", "dtype-checked:f", "stack", "concatenate", "secondary:permuted", "secondary:differs", "secondary:single-label-differs", "dimorder:differs", "square",
             "align:True", "align:True+sort", "input:dict", "keys:str", "expected-ValueError", "concat:axis-not-first"]


def budget(tier):
    return {"quick": dict(examples=3000, shards=1), "thorough": dict(examples=15000, shards=16)}[tier]


@st.composite
def join_case(draw):
    nd = draw(st.integers(1, 3))
    dims = list(draw(st.permutations(draw(gen.names_pool()))))[:nd]
    square = draw(st.booleans())
    n0 = draw(st.integers(1, 3))
    kinds = [draw(st.sampled_from("ifs")) for _ in dims]
    if square:
        kinds = [kinds[0]] * nd
    base_labels = []
    for i, d in enumerate(dims):
        n = n0 if square else draw(st.integers(1, 3))
        if square and i > 0 and draw(st.booleans()):
            base_labels.append(list(base_labels[0]))      # identical label vectors on several dimensions
        else:
            base_labels.append(draw(gen.labels(n, kind=kinds[i])))
    func = draw(st.sampled_from(["stack", "concatenate"]))
    cdim = draw(st.sampled_from(dims)) if func == "concatenate" else None
    n_in = draw(st.integers(1, 4))
    aligned_inputs = draw(st.sampled_from([True, True, False]))   # True: all secondary axes equal (then joins must succeed)
    specs = []
    for k in range(n_in):
        order = list(dims)
        if k > 0 and nd > 1 and draw(st.integers(0, 3)) == 0:
            order = list(draw(st.permutations(dims)))
        labs = []
        for d in order:
            bl = base_labels[dims.index(d)]
            kind = kinds[dims.index(d)]
            if d == cdim:
                rel, l = draw(gen.related_labels(bl, kind, relation=draw(st.sampled_from(["disjoint", "disjoint", "equal", "overlapping"]))))
                if k > 0 and kind == "i" and l and draw(st.integers(0, 3)) == 0:
                    frac = draw(st.sampled_from([0.0, 0.5, 0.1]))   # int labels first, float labels (between the integers) in a later input
                    l = [x + frac if draw(st.booleans()) else float(x) for x in l]
                labs.append(l if k > 0 else list(bl))
            elif k == 0 or aligned_inputs:
                labs.append(list(bl))
            else:
                choice = draw(st.sampled_from(["equal", "permuted", "subset", "overlapping", "disjoint", "interior", "interior", "same-size-other", "same-size-other"] +
                                              (["near-miss", "near-miss"] if kind == "f" else [])))
                if choice == "near-miss":
                    # float labels that differ from the first input's in the sixth significant digit only: other labels all the same
                    j = draw(st.integers(0, len(bl) - 1))
                    l = list(bl)
                    l[j] = l[j] * (1 + 3e-6) if l[j] else 3e-9
                elif choice == "same-size-other":
                    # same length, other labels: shape-compatible, so only a label check can refuse it
                    l = [x + "_" if kind == "s" else x + 100 for x in bl]
                    if draw(st.booleans()):
                        l = list(bl[:-1]) + l[-1:]
                else:
                    rel, l = draw(gen.related_labels(bl, kind, relation=choice))
                    if kind == "i" and l and draw(st.integers(0, 3)) == 0:
                        frac = draw(st.sampled_from([0.0, 0.5, 0.1]))   # an int-labelled axis met by a float-labelled one
                        l = [x + frac if draw(st.booleans()) else float(x) for x in l]
                labs.append(l)
        specs.append({"dims": order, "labels": labs, "vk": draw(st.sampled_from("fi")), "base": 50 * k + draw(st.integers(0, 9))})
    keys_kind = draw(st.sampled_from(["default", "int", "str"]))
    container = draw(st.sampled_from(["list", "list", "tuple", "dict"])) if func == "stack" else draw(st.sampled_from(["list", "tuple"]))
    if container == "dict" and keys_kind == "default":
        keys_kind = "str"
    align = draw(st.sampled_from([False, False, True]))
    return {"func": func, "specs": specs, "cdim": cdim, "caxis_form": draw(st.sampled_from(["name", "pos"])), "keys": keys_kind,
            "container": container, "align": align, "sort": draw(st.booleans()) if align else False, "newaxis": "stk", "rehearse": draw(st.integers(0, 3)) == 0, "positional": draw(st.integers(0, 2)) == 0}


def strategy(tier):
    return join_case()


def enumerate_cases(tier):
    """two or three inputs over (x, y): how the SECONDARY axis y of the later inputs relates to the first input's x {stack, concatenate
    along x} x {align off, align, align + sort} x label kind x which input differs"""
    kinds = {"i": {"base": [3, 1, 2], "equal": [3, 1, 2], "permuted": [1, 2, 3], "subset": [3, 1], "superset": [3, 1, 2, 7], "overlapping": [1, 9],
                   "disjoint": [8, 9], "interior": [3, 5, 2], "same-size-other": [3, 1, 102], "falsy": [3, 0, 2], "float-between": [3.0, 1.5, 2.0]},
             "s": {"base": ["c", "a", "b"], "equal": ["c", "a", "b"], "permuted": ["a", "b", "c"], "subset": ["c", "a"], "superset": ["c", "a", "b", "q"],
                   "overlapping": ["a", "z"], "disjoint": ["y", "z"], "interior": ["c", "m", "b"], "same-size-other": ["c", "a", "b_"], "falsy": ["c", "", "b"],
                   "float-between": ["c", "10", "b"]}}
    combos = [(tab["base"], ly) for kind, tab in kinds.items() for rel, ly in tab.items() if rel != "base"]
    # sorted axes that touch in exactly one label; a single (falsy) label next to longer axes
    combos += [([0, 1, 2], [2, 3, 4]), ([2, 3, 4], [0, 1, 2]), ([4, 3, 2], [2, 1, 0]), (["a", "b", "c"], ["c", "d", "e"]), ([0.5, 1.5], [1.5, 2.5, 3.5]), ([1, 2], [2]), ([2], [1, 2]),
               ([0.5, 1.5, 2.5], [0.5, 1.5000045, 2.5]), ([300.0, 301.0], [300.0006, 301.0]), ([2000.01, 2000.02], [2000.01, 2000.03]),
               ([0, 1, 2, 3], [0, 2, 1, 3]), ([0, 2, 1, 3], [0, 1, 2, 3]), ([10, 12, 11, 13], [13, 12, 11, 10]), ([5, 7, 6, 8], [5, 6, 7, 8, 9]),
               ([3, 1, 2], [0]), ([1, 2, 3], [0]), ([0], [1, 2, 3]), ([1.5, 2.5], [0.0]), (["c", "a"], [""]), ([""], ["c", "a"]), ([7], [0]), ([0], [7])]
    # three-dimensional inputs: the FIRST secondary axis agrees, a later one differs (same size, other order / other labels) - and the other way round
    for func in ("stack", "concatenate"):
        for which, other_l in (("z", ["q", "p"]), ("z", ["p", "r"]), ("y", [2, 1]), ("y", [1, 3])):
            for align in (False, True):
                for n_in in (2, 3):
                    specs = []
                    for k in range(n_in):
                        lx = [10 * k + 1, 10 * k + 2] if func == "concatenate" else [1, 2]
                        ly_, lz_ = [1, 2], ["p", "q"]
                        if k == n_in - 1:
                            ly_, lz_ = (other_l, lz_) if which == "y" else (ly_, other_l)
                        specs.append({"dims": ["x", "y", "z"], "labels": [lx, list(ly_), list(lz_)], "vk": "f", "base": 50 * k})
                    yield "secondary-axis-relations", {"func": func, "specs": specs, "cdim": "x" if func == "concatenate" else None, "caxis_form": "name",
                                                       "keys": "default" if func == "concatenate" else "str", "container": "list", "align": align, "sort": False, "newaxis": "stk"}
    for base_y, ly in combos:
        for _ in (0,):
            tab = {"base": base_y}
            for func in ("stack", "concatenate"):
                for align, sort in ((False, False), (True, False), (True, True)):
                    for n_in, which in ((2, 1), (3, 1), (3, 2)):
                        specs = []
                        for k in range(n_in):
                            lx = [10 * k + 1, 10 * k + 2] if func == "concatenate" else [1, 2]
                            specs.append({"dims": ["x", "y"], "labels": [lx, list(ly) if k == which else list(tab["base"])], "vk": "f", "base": 50 * k})
                        yield "secondary-axis-relations", {"func": func, "specs": specs, "cdim": "x" if func == "concatenate" else None, "caxis_form": "name",
                                                           "keys": "default" if func == "concatenate" else "str", "container": "list", "align": align, "sort": sort,
                                                           "newaxis": "stk"}


# ----------------------------------------------------------------------------------------------

def _keys(case):
    n = len(case["specs"])
    if case["keys"] == "int":
        return [10 * (k + 1) for k in range(n)][::-1]
    if case["keys"] == "str":
        return ["k%d" % k for k in range(n)][::-1]
    return None


def _secondary_status(specs, skip=None):
    """-> 'aligned' | 'differs' ; plus classes"""
    cl = set()
    first = specs[0]
    status = "aligned"
    for s in specs[1:]:
        for d in first["dims"]:
            if d == skip:
                continue
            l0 = [core.canon_label(x) for x in first["labels"][first["dims"].index(d)]]
            l1 = [core.canon_label(x) for x in s["labels"][s["dims"].index(d)]]
            if l0 != l1:
                status = "differs"
                cl.add("secondary:permuted" if sorted(map(str, l0)) == sorted(map(str, l1)) else "secondary:differs")
                if len(l0) == 1 and len(l1) == 1:
                    cl.add("secondary:single-label-differs")
    return status, cl


def run_case(case):
    da = core.env.import_dimarray()
    specs, func, align, sort = case["specs"], case["func"], case["align"], case["sort"]
    if case.get("rehearse"):
        # the SAME objects were joined before, under other labels (same kinds, reverse order) and other values, then relabelled and
        # overwritten in place: whatever that first join left on them or on their axes must not matter now
        arrays = [core.build_initial(s) for s in specs]
        for f in ((lambda: da.stack(list(arrays), axis="stk_", align=True)), (lambda: da.stack(list(arrays), axis="stk_", align=True, sort=True)),
                  (lambda: da.concatenate(list(arrays), axis=case["cdim"] or specs[0]["dims"][0], align=True) if specs[0]["dims"] else None)):
            try:
                with np.errstate(all="ignore"):
                    f()
            except Exception:
                pass
        for a_, s_ in zip(arrays, specs):
            core.finalise(a_, s_)
    else:
        arrays = [core.build(s) for s in specs]
    snaps = [core.snapshot(a) for a in arrays]
    models = [core.model_of_spec(s) for s in specs]
    keys = _keys(case)
    n = len(arrays)
    first = specs[0]
    cl = set([func])
    dimorder_differs = any(s["dims"] != first["dims"] for s in specs)
    if dimorder_differs:
        cl.add("dimorder:differs")
    shapes = {tuple(len(l) for l in s["labels"]) for s in specs}
    if len(first["dims"]) >= 2 and len(set(len(l) for l in first["labels"])) == 1:
        cl.add("square")
    kw = {}
    if align:
        kw["align"] = True
        cl.add("align:True")
        if sort:
            kw["sort"] = True
            cl.add("align:True+sort")
    sig = {"func": func, "align": align}

    if func == "stack":
        status, c2 = _secondary_status(specs)
        cl |= c2
        if case["container"] == "dict":
            kk = keys
            cont = dict(zip(kk, arrays))
            call = lambda: da.stack(cont, axis=case["newaxis"], **kw)
            exp_keys = kk
            cl.add("input:dict")
        else:
            cont = list(arrays) if case["container"] == "list" else tuple(arrays)
            if keys is None:
                call = lambda: da.stack(cont, axis=case["newaxis"], **kw)
                exp_keys = list(range(n))
            else:
                call = lambda: da.stack(cont, axis=case["newaxis"], keys=list(keys), **kw)
                exp_keys = keys
                if case.get("positional") and not sort:
                    # the documented parameter order stack(arrays, axis, keys, align), given by position
                    call = lambda: da.stack(cont, case["newaxis"], list(keys), bool(align))
                    cl.add("call:positional")
        if keys and isinstance(keys[0], str):
            cl.add("keys:str")
        what = "stack(%s, keys=%s, %s)" % (core.jsonable([{"dims": s["dims"], "labels": s["labels"]} for s in specs]), exp_keys, kw)
        if not align and status == "differs":
            cl.add("expected-ValueError")
            if dimorder_differs:
                core.must_raise(call, (Exception,), what, sig=sig)
            else:
                core.must_raise(call, (ValueError,), what, sig=sig)
        else:
            if dimorder_differs and not align:
                try:
                    res = call()
                except Exception:
                    res = None            # refused: allowed by the statement
                    cl.add("dimorder:refused")
            else:
                res = lib(call, what=what, sig=sig)
            if res is not None:
                check(isinstance(res, da.DimArray), "not-a-dimarray", {"what": what, "got": core.brief(res)}, sig)
                check(res.dims[0] == case["newaxis"] and sorted(res.dims[1:]) == sorted(first["dims"]), "dims",
                      {"what": what, "got": list(res.dims), "expected": [case["newaxis"]] + first["dims"]}, sig)
                if not dimorder_differs:
                    check(list(res.dims[1:]) == first["dims"], "dims", {"what": what, "got": list(res.dims), "expected": [case["newaxis"]] + first["dims"]}, sig)
                check(core.same_labels(res.axes[0].values, exp_keys), "keys", {"what": what, "got": core.jsonable(res.axes[0].values), "expected": exp_keys}, sig)
                mr = core.model_of(res)
                rd = list(res.dims[1:])
                fill_needed = False
                for i, d in enumerate(rd):
                    got = [core.canon_label(x) for x in mr.labels[i + 1]]
                    sets = [set(core.canon_label(x) for x in s["labels"][s["dims"].index(d)]) for s in specs]
                    want = set().union(*sets)
                    fill_needed = fill_needed or any(s_ != want for s_ in sets)
                    check(len(got) == len(set(got)) and set(got) == want, "secondary-labels", {"what": what, "dim": d, "got": core.jsonable(got), "expected_set": core.jsonable(sorted(want, key=str))}, sig)
                    if not align:
                        check(got == [core.canon_label(x) for x in first["labels"][first["dims"].index(d)]], "secondary-label-order", {"what": what, "dim": d, "got": core.jsonable(got)}, sig)
                    if sort:
                        check(all(got[j] < got[j + 1] for j in range(len(got) - 1)), "not-sorted", {"what": what, "dim": d, "got": core.jsonable(got)}, sig)
                for coord in mr.coords():
                    k = [core.canon_label(x) for x in exp_keys].index(coord[0])
                    m = models[k]
                    c = dict(zip(rd, coord[1:]))
                    key = tuple(c[d] for d in m.dims)
                    exp = m.cells.get(key, float("nan"))
                    got = mr.cells[coord]
                    if not core.same_scalar(got, exp):
                        raise Violation("value", {"what": what, "key": core.jsonable(coord[0]), "coord": core.jsonable(c), "got": core.jsonable(got),
                                                  "expected": core.jsonable(exp), "result": core.brief(res)}, sig=sig)
                if not fill_needed:
                    # joining does not convert the data: integers joined with integers stay integers (NumPy's rule for the inputs' dtypes)
                    want_dt = np.result_type(*[x.values.dtype for x in arrays])
                    check(res.values.dtype == want_dt, "joined-dtype", {"what": what, "got": str(res.values.dtype), "expected": str(want_dt)}, sig)
                    cl.add("dtype-checked:" + want_dt.kind)
    else:
        cdim = case["cdim"]
        status, c2 = _secondary_status(specs, skip=cdim)
        cl |= c2
        pos = first["dims"].index(cdim)
        if pos > 0:
            cl.add("concat:axis-not-first")
        axis = cdim if case["caxis_form"] == "name" else pos
        cont = list(arrays) if case["container"] != "tuple" else tuple(arrays)
        call = lambda: da.concatenate(cont, axis=axis, **kw)
        if case.get("positional") and not kw:
            call = lambda: da.concatenate(cont, axis)          # axis by position
            cl.add("call:positional")
        what = "concatenate(%s, axis=%r, %s)" % (core.jsonable([{"dims": s["dims"], "labels": s["labels"]} for s in specs]), axis, kw)
        if not align and status == "differs":
            cl.add("expected-ValueError")
            if dimorder_differs:
                core.must_raise(call, (Exception,), what, sig=sig)
            else:
                core.must_raise(call, (ValueError,), what, sig=sig)
        else:
            if dimorder_differs:
                try:
                    res = call()
                except Exception:
                    res = None
                    cl.add("dimorder:refused")
            else:
                res = lib(call, what=what, sig=sig)
            if res is not None:
                check(isinstance(res, da.DimArray), "not-a-dimarray", {"what": what, "got": core.brief(res)}, sig)
                check(sorted(res.dims) == sorted(first["dims"]), "dims", {"what": what, "got": list(res.dims), "expected": first["dims"]}, sig)
                if not dimorder_differs:
                    check(list(res.dims) == first["dims"], "dims", {"what": what, "got": list(res.dims), "expected": first["dims"]}, sig)
                rd = list(res.dims)
                rpos = rd.index(cdim)
                exp_c = []
                for s in specs:
                    exp_c += list(s["labels"][s["dims"].index(cdim)])
                check(core.same_labels(res.axes[rpos].values, exp_c), "concatenated-labels", {"what": what, "got": core.jsonable(res.axes[rpos].values), "expected": exp_c}, sig)
                sec_labels = {}
                fill_needed = False
                for i, d in enumerate(rd):
                    if d == cdim:
                        continue
                    got = [core.canon_label(x) for x in res.axes[i].values.tolist()]
                    sets = [set(core.canon_label(x) for x in s["labels"][s["dims"].index(d)]) for s in specs]
                    want = set().union(*sets)
                    fill_needed = fill_needed or any(s_ != want for s_ in sets)
                    check(len(got) == len(set(got)) and set(got) == want, "secondary-labels", {"what": what, "dim": d, "got": core.jsonable(got)}, sig)
                    if not align:
                        check(got == [core.canon_label(x) for x in first["labels"][first["dims"].index(d)]], "secondary-label-order", {"what": what, "dim": d, "got": core.jsonable(got)}, sig)
                    if sort:
                        check(all(got[j] < got[j + 1] for j in range(len(got) - 1)), "not-sorted", {"what": what, "dim": d, "got": core.jsonable(got)}, sig)
                    sec_labels[d] = got
                # segments
                import itertools
                off = 0
                vals = res.values
                check(vals.shape == tuple(len(exp_c) if d == cdim else len(sec_labels[d]) for d in rd), "shape", {"what": what, "got": list(vals.shape)}, sig)
                for k, s in enumerate(specs):
                    m = models[k]
                    cl_k = [core.canon_label(x) for x in s["labels"][s["dims"].index(cdim)]]
                    for j, lab in enumerate(cl_k):
                        others = [d for d in rd if d != cdim]
                        for combo in itertools.product(*[sec_labels[d] for d in others]):
                            c = dict(zip(others, combo))
                            c[cdim] = lab
                            idx = tuple((off + j) if d == cdim else sec_labels[d].index(c[d]) for d in rd)
                            key = tuple(c[d] for d in m.dims)
                            exp = m.cells.get(key, float("nan"))
                            if not core.same_scalar(vals[idx], exp):
                                raise Violation("value", {"what": what, "input": k, "coord": core.jsonable(c), "got": core.jsonable(vals[idx]),
                                                          "expected": core.jsonable(exp), "result": core.brief(res)}, sig=sig)
                    off += len(cl_k)
                if not fill_needed:
                    want_dt = np.result_type(*[x.values.dtype for x in arrays])
                    check(res.values.dtype == want_dt, "joined-dtype", {"what": what, "got": str(res.values.dtype), "expected": str(want_dt)}, sig)
                    cl.add("dtype-checked:" + want_dt.kind)
    for a, sn in zip(arrays, snaps):
        core.expect_unchanged(a, sn, "join operand", sig)
    # the container handed to the library is an argument too: still the same objects in the same places
    members = list(cont.values()) if isinstance(cont, dict) else list(cont)
    check(len(members) == len(arrays) and all(x is y for x, y in zip(members, arrays)), "container-argument-modified",
          {"what": "%s(%s of %d arrays, %s)" % (func, type(cont).__name__, len(arrays), kw), "now": [core.brief(x) for x in members]}, sig)
    nontrivial = n >= 2 and (status == "differs" or dimorder_differs or align)
    if case.get("rehearse"):
        cl.add("inputs:joined-before-under-other-labels")
    return {"classes": sorted(cl), "nontrivial": nontrivial}
