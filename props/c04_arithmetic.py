"""C04 - Arithmetic aligns operands by dimension name and by label.

Statement: "For two DimArrays, a op b (+, -, *, /, //, **) is computed label-wise: the result's dimensions
are the union of both operands' dimensions (the first operand's in their order, then the new ones), every
shared dimension carries the union of both label sets with each label once, and the value at every label
coordinate equals a[coord] op b[coord] where both operands define that coordinate and NaN elsewhere -
independently of the order in which labels or dimensions happen to be stored.  Operands lacking a dimension
are broadcast along it by name, never by position.  With a scalar operand (in either operand order) or a
plain ndarray right operand, the result equals the NumPy result on .values with the DimArray's axes unchanged."

Oracle: evaluation per coordinate on the dict model (vlib.core.model_of), which has no notion of position.
"""
import itertools
import operator

import numpy as np
from hypothesis import strategies as st

from vlib import core, gen
from vlib.core import lib, check, Violation

ID = "C04"
TITLE = "Arithmetic aligns operands by dimension name and by label"
RULE = ("generated pairs of arrays (0-3 dims each, thorough 0-4) over 4 dimension names in free order; for each shared dimension the "
        "second label vector is constructed from the first (equal | permuted | subset | superset | overlapping | disjoint) and stored "
        "asis/inc/dec/shuffled; int, float, str labels and int-vs-float pairs; float/int values (no 0 or 1, so that 1**nan / nan**0 do "
        "not blur 'NaN elsewhere'); all six operators, both operand orders; plus scalar (python / numpy, both orders) and ndarray right "
        "operands.  Non-trivial: both operands DimArrays with a shared dimension whose label vectors differ, or differing dimension order.")
ASSUMPTIONS = [
    "oracle: per-coordinate op(x, y) on scalars from the dict model; computed values compared with rtol=atol=1e-12",
    "order of labels on a result axis is not asserted here (C06 owns ordering); each label once and set equality are",
    "default options op.reindex=True, op.broadcast=True",
]
MANDATORY = ["rel:permuted", "rel:overlapping", "rel:disjoint", "rel:subset", "rel:superset", "rel:equal", "dims:reordered", "dims:b-has-new",
             "dims:a-has-extra", "labels:s", "labels:int-vs-float", "operand:scalar", "operand:ndarray", "storage:shuf", "operands:combined-before-under-other-labels", "dtype-checked:ii->i", "dtype-checked:ii->f", "dtype-checked:if->f"]

OPS = {"+": np.add, "-": np.subtract, "*": np.multiply, "/": np.true_divide, "//": np.floor_divide, "**": np.power}
PYOPS = {"+": operator.add, "-": operator.sub, "*": operator.mul, "/": operator.truediv, "//": operator.floordiv, "**": operator.pow}


def budget(tier):
    return {"quick": dict(examples=2500, shards=1), "thorough": dict(examples=12000, shards=16)}[tier]


@st.composite
def pair_case(draw, max_dims=3):
    names = gen.NAMES
    a = draw(gen.array_spec(min_dims=0, max_dims=max_dims, min_size=1, max_size=3, vks="fi", names=names, nan=True))
    a["base"] = draw(st.integers(2, 6))
    # dims of b: some of a's, some new, free order
    shared = [d for d in a["dims"] if draw(st.booleans())]
    new = [d for d in names if d not in a["dims"] and draw(st.integers(0, 3)) == 0]
    bdims = list(draw(st.permutations(shared + new)))[:max_dims + 1]
    blabels = []
    rels = {}
    for d in bdims:
        if d in a["dims"]:
            base = a["labels"][a["dims"].index(d)]
            kind = core.label_kind(base)
            rel, labs = draw(gen.related_labels(base, kind))
            mix = draw(st.integers(0, 7)) if kind == "i" else 9
            if mix == 0:
                labs = [float(x) for x in labs]           # int-vs-float pair
                rels[d] = (rel, "int-vs-float")
            elif mix == 1 and labs:
                frac = draw(st.sampled_from([0.5, 0.1]))  # int-vs-float pair with labels between the integers
                labs = [x + frac if draw(st.booleans()) else float(x) for x in labs]
                rels[d] = (rel, "int-vs-fractional-float")
            else:
                rels[d] = (rel, kind)
            blabels.append(labs)
        else:
            blabels.append(draw(gen.labels(draw(st.integers(1, 3)))))
    b = {"dims": bdims, "labels": blabels, "vk": draw(st.sampled_from("fi")), "base": draw(st.integers(2, 6)), "hist": draw(gen.history(blabels))}
    nb = int(np.prod([len(l) for l in blabels])) if blabels else 1
    if b["vk"] == "f" and draw(st.integers(0, 3)) == 0:
        b["nan"] = draw(st.lists(st.integers(0, nb - 1), min_size=1, max_size=max(1, nb // 2), unique=True))
    op = draw(st.sampled_from(list(OPS)))
    if op == "**":
        # keep powers representable: small injective float values, or small integers (integer powers of integers stay integers)
        ints = draw(st.booleans())
        for j, s in enumerate((a, b)):
            n = int(np.prod([len(l) for l in s["labels"]])) if s["labels"] else 1
            s["vk"] = "i" if ints else "f"
            s["vals"] = [2 + k % (7 if j == 0 else 3) for k in range(n)] if ints else [2.0 + 0.25 * k for k in range(n)]
            s.pop("nan", None)
    return {"mode": "pair", "a": a, "b": b, "op": op, "rehearse": draw(st.integers(0, 3)) == 0}


@st.composite
def other_case(draw):
    a = draw(gen.array_spec(min_dims=0, max_dims=3, min_size=1, max_size=3, vks="fi"))
    a["base"] = draw(st.integers(2, 6))
    op = draw(st.sampled_from(list(OPS)))
    kind = draw(st.sampled_from(["pyint", "pyfloat", "npint", "npfloat", "ndarray-same", "ndarray-bcast", "ndarray-column", "ndarray-singleton-first", "0d-array"]))
    if op == "**":
        n = int(np.prod([len(l) for l in a["labels"]])) if a["labels"] else 1
        ints = draw(st.booleans())
        a["vk"] = "i" if ints else "f"
        a["vals"] = [2 + k % 7 for k in range(n)] if ints else [2.0 + 0.25 * k for k in range(n)]
    return {"mode": "other", "a": a, "op": op, "kind": kind, "s": draw(st.sampled_from([2, 3, 5])), "reverse": draw(st.booleans())}


def enumerate_cases(tier):
    """the same label set in both operands, the second one stored in EVERY order (24 permutations of 4 labels): alignment is by label,
    whatever the stored order - also when only the interior labels differ from the first operand's order"""
    for kind, base in (("i", [10, 20, 30, 40]), ("s", ["a", "b", "c", "d"]), ("f", [0.5, 1.5, 2.5, 3.5])):
        for k, perm in enumerate(itertools.permutations(base)):
            for op in ("+", "-") if kind == "i" else ("*",):
                for shape2 in (False, True):
                    a = {"dims": ["x"], "labels": [list(base) if not shape2 else list(base[::-1])], "vk": "f", "base": 2}
                    b = {"dims": ["x", "y"] if shape2 else ["x"], "labels": [list(perm), [1, 2]] if shape2 else [list(perm)], "vk": "f" if k % 2 else "i", "base": 3}
                    yield "same-label-set-every-order", {"mode": "pair", "a": a, "b": b, "op": op}
    # ... and the first operand's labels nested in the second one's (every order of the 4 inner labels between two outer ones)
    for perm in itertools.permutations([10, 20, 30, 40]):
        a = {"dims": ["x"], "labels": [[10, 20, 30, 40]], "vk": "i", "base": 2}
        b = {"dims": ["x"], "labels": [[5] + list(perm) + [45]], "vk": "i", "base": 3}
        yield "same-label-set-every-order", {"mode": "pair", "a": a, "b": b, "op": "+"}

    # closely spaced float labels of large magnitude (decimal years, metre coordinates; relative spacing 5e-6): one operand lacks some of them -
    # every non-empty proper subset, both operand orders; a label is missing or it is there, however close its neighbours are
    for base in ([2000.01, 2000.02, 2000.03, 2000.04], [500003.0, 500002.0, 500001.0, 500000.0]):
        for mask in range(1, 15):
            sub = [x for i, x in enumerate(base) if mask & (1 << i)]
            a = {"dims": ["x"], "labels": [list(base)], "vk": "f", "base": 2}
            b = {"dims": ["x"], "labels": [sub], "vk": "f", "base": 3}
            yield "closely-spaced-float-labels", {"mode": "pair", "a": a, "b": b, "op": "+"}
            yield "closely-spaced-float-labels", {"mode": "pair", "a": b, "b": a, "op": "-"}


def strategy(tier):
    md = 4 if tier == "thorough" else 3
    return st.one_of(pair_case(md), pair_case(md), pair_case(md), other_case())


# ----------------------------------------------------------------------------------------------

def _scalar_op(op, x, y):
    with np.errstate(all="ignore"):
        return OPS[op](np.asarray(x), np.asarray(y)).item()


def check_binary(res, ma, mb, op, what, sig, dtypes=None, cl=None):
    """res must be the label-wise result of (model a) op (model b)"""
    da = core.env.import_dimarray()
    exp_dims = list(ma.dims) + [d for d in mb.dims if d not in ma.dims]
    if not exp_dims:
        check(not isinstance(res, da.Dataset), "type", {"what": what}, sig)
        got = res.values.item() if hasattr(res, "values") else res
        exp = _scalar_op(op, ma.cells[()], mb.cells[()])
        check(core.same_scalar(got, exp, tol=True), "value", {"what": what, "got": core.jsonable(got), "expected": exp}, sig)
        return
    check(isinstance(res, da.DimArray), "not-a-dimarray", {"what": what, "got": core.brief(res)}, sig)
    check(list(res.dims) == exp_dims, "dims", {"what": what, "got": list(res.dims), "expected": exp_dims}, sig)
    mr = core.model_of(res)
    for i, d in enumerate(exp_dims):
        got = [core.canon_label(x) for x in mr.labels[i]]
        want = set()
        if d in ma.dims:
            want |= {core.canon_label(x) for x in ma.labels[ma.dims.index(d)]}
        if d in mb.dims:
            want |= {core.canon_label(x) for x in mb.labels[mb.dims.index(d)]}
        check(len(got) == len(set(got)), "duplicate-labels", {"what": what, "dim": d, "got": core.jsonable(got)}, sig)
        check(set(got) == want, "label-set", {"what": what, "dim": d, "got": core.jsonable(got), "expected_set": core.jsonable(sorted(want, key=str))}, sig)
    check(res.values.shape == tuple(len(l) for l in mr.labels), "shape", {"what": what}, sig)
    for coord in mr.coords():
        c = dict(zip(exp_dims, coord))
        ka = tuple(c[d] for d in ma.dims)
        kb = tuple(c[d] for d in mb.dims)
        if ka in ma.cells and kb in mb.cells:
            exp = _scalar_op(op, ma.cells[ka], mb.cells[kb])
        else:
            exp = float("nan")
        got = mr.cells[coord]
        if not core.same_scalar(got, exp, tol=True):
            raise Violation("value", {"what": what, "coord": core.jsonable(c), "got": core.jsonable(got), "expected": core.jsonable(exp),
                                      "a_has": ka in ma.cells, "b_has": kb in mb.cells}, sig=sig)
    # "equals a[coord] op b[coord]": where no coordinate needs the NaN fill, the result also has the type of that scalar operation
    # (integers combined by + - * // ** stay integers: beyond 2**53 a float result no longer equals a[coord] op b[coord])
    if dtypes is not None and mr.cells and all(tuple(dict(zip(exp_dims, coord))[d] for d in ma.dims) in ma.cells and
                                               tuple(dict(zip(exp_dims, coord))[d] for d in mb.dims) in mb.cells for coord in mr.coords()):
        with np.errstate(all="ignore"):
            kind = OPS[op](np.full(1, 2, dtype=dtypes[0]), np.full(1, 2, dtype=dtypes[1])).dtype.kind
        check(res.values.dtype.kind == kind, "result-dtype-kind", {"what": what, "got": str(res.values.dtype), "operands": [str(x) for x in dtypes], "expected_kind": kind}, sig)
        if cl is not None:
            cl.add("dtype-checked:%s%s->%s" % (dtypes[0].kind, dtypes[1].kind, kind))


def run_pair(case):
    op = case["op"]
    if case.get("rehearse"):
        # the SAME two objects were combined before, under other labels (same kinds) and other values; then both were relabelled and
        # overwritten in place: whatever the first operation left behind on them (cast / joined / sorted axes) must not matter now
        a, b = core.build_initial(case["a"]), core.build_initial(case["b"])
        for f in (lambda: PYOPS[op](a, b), lambda: PYOPS[op](b, a), lambda: a + b):
            try:
                with np.errstate(all="ignore"):
                    f()
            except Exception:
                pass
        core.finalise(a, case["a"])
        core.finalise(b, case["b"])
    else:
        a = core.build(case["a"])
        b = core.build(case["b"])
    sa, sb = core.snapshot(a), core.snapshot(b)
    ma, mb = core.model_of_spec(case["a"]), core.model_of_spec(case["b"])
    sig = {"mode": "pair", "op": op}
    what = "a %s b  a=%s b=%s" % (op, {"dims": case["a"]["dims"], "labels": case["a"]["labels"]}, {"dims": case["b"]["dims"], "labels": case["b"]["labels"]})
    cl = set()
    res = lib(lambda: PYOPS[op](a, b), what=what, sig=sig)
    check_binary(res, ma, mb, op, what, sig, dtypes=(a.values.dtype, b.values.dtype), cl=cl)
    res2 = lib(lambda: PYOPS[op](b, a), what="(b op a) " + what, sig=sig)
    check_binary(res2, mb, ma, op, "(b op a) " + what, sig, dtypes=(b.values.dtype, a.values.dtype), cl=cl)
    core.expect_unchanged(a, sa, what + " [operand a]", sig)
    core.expect_unchanged(b, sb, what + " [operand b]", sig)
    shared = [d for d in case["a"]["dims"] if d in case["b"]["dims"]]
    differs = False
    for d in shared:
        la = case["a"]["labels"][case["a"]["dims"].index(d)]
        lb = case["b"]["labels"][case["b"]["dims"].index(d)]
        rel = gen.relation_of([core.canon_label(x) for x in la], [core.canon_label(x) for x in lb])
        cl.add("rel:" + rel)
        if rel != "equal":
            differs = True
        ka, kb = core.label_kind(la), core.label_kind(lb)
        cl.add("labels:" + (ka if ka == kb else "int-vs-float"))
        cl.add("storage:" + gen.order_of(la))
        cl.add("storage:" + gen.order_of(lb))
    if [d for d in case["a"]["dims"] if d in shared] != [d for d in case["b"]["dims"] if d in shared]:
        cl.add("dims:reordered")
        differs = True
    if any(d not in case["a"]["dims"] for d in case["b"]["dims"]):
        cl.add("dims:b-has-new")
    if any(d not in case["b"]["dims"] for d in case["a"]["dims"]):
        cl.add("dims:a-has-extra")
    cl.add("op:" + op)
    if case.get("rehearse"):
        cl.add("operands:combined-before-under-other-labels")
    return {"classes": sorted(cl), "nontrivial": bool(shared) and differs}


def run_other(case):
    a = core.build(case["a"])
    op, kind, s = case["op"], case["kind"], case["s"]
    sa = core.snapshot(a)
    vals = core.spec_values(case["a"])
    sig = {"mode": "other", "op": op, "kind": kind}
    if kind == "pyint":
        o = int(s)
    elif kind == "pyfloat":
        o = s + 0.5
    elif kind == "npint":
        o = np.int64(s)
    elif kind == "npfloat":
        o = np.float64(s + 0.25)
    elif kind == "0d-array":
        o = np.array(float(s))
    elif kind == "ndarray-same":
        o = (np.arange(vals.size, dtype=float).reshape(vals.shape) % 3) + 2.0
    elif kind in ("ndarray-column", "ndarray-singleton-first"):
        # NumPy broadcasting of a right operand with a length-1 dimension: the last one (a column) or the first one
        sh = (vals.shape[:-1] + (1,) if kind == "ndarray-column" else (1,) + vals.shape[1:]) if vals.ndim else ()
        o = (np.arange(int(np.prod(sh)) if sh else 1, dtype=float).reshape(sh) % 5) + 2.0
    else:
        sh = vals.shape[1:] if vals.ndim > 1 else vals.shape
        o = (np.arange(int(np.prod(sh)) if sh else 1, dtype=float).reshape(sh) % 3) + 2.0
    reverse = case["reverse"] and kind in ("pyint", "pyfloat", "npint", "npfloat")
    what = "%s a=%s other=%s(%s) reverse=%s" % (op, {"dims": case["a"]["dims"], "labels": case["a"]["labels"]}, kind, core.jsonable(o), reverse)
    if reverse:
        res = lib(lambda: PYOPS[op](o, a), what=what, sig=sig)
        with np.errstate(all="ignore"):
            exp = OPS[op](o, vals)
    else:
        res = lib(lambda: PYOPS[op](a, o), what=what, sig=sig)
        with np.errstate(all="ignore"):
            exp = OPS[op](vals, o)
    da = core.env.import_dimarray()
    if vals.ndim == 0:
        got = res.values if hasattr(res, "values") else res
        check(core.same_scalar(np.asarray(got).item(), np.asarray(exp).item(), tol=True), "value", {"what": what, "got": core.jsonable(got), "expected": core.jsonable(exp)}, sig)
    else:
        check(isinstance(res, da.DimArray), "not-a-dimarray", {"what": what, "got": core.brief(res)}, sig)
        check(list(res.dims) == case["a"]["dims"], "dims", {"what": what, "got": list(res.dims)}, sig)
        for i, l in enumerate(case["a"]["labels"]):
            check(core.same_labels(res.axes[i].values, l), "labels", {"what": what, "dim": res.dims[i], "got": core.jsonable(res.axes[i].values), "expected": l}, sig)
        check(res.values.shape == exp.shape, "shape", {"what": what}, sig)
        check(res.values.dtype.kind == np.asarray(exp).dtype.kind, "result-dtype-kind", {"what": what, "got": str(res.values.dtype), "numpy": str(np.asarray(exp).dtype)}, sig)
        for x, y in zip(res.values.ravel().tolist(), np.asarray(exp).ravel().tolist()):
            if not core.same_scalar(x, y, tol=True):
                raise Violation("value", {"what": what, "got": core.jsonable(res.values), "expected": core.jsonable(exp)}, sig=sig)
    core.expect_unchanged(a, sa, what + " [operand]", sig)
    cl = ["operand:" + ("ndarray" if "array" in kind else "scalar"), "op:" + op] + (["operand:scalar-reversed"] if reverse else [])
    return {"classes": cl, "nontrivial": vals.ndim >= 1}


def run_case(case):
    return run_pair(case) if case["mode"] == "pair" else run_other(case)
