"""C20 - On-disk netCDF access is equivalent to in-memory access.

Statement: "For a variable stored in a netCDF file, label or position indexing on the on-disk handle
(open_nc(f)[name][idx], .ix/.loc/.sel/.isel, read_nc(f, name, indices=..., indexing=..., tol=...)) returns exactly
what the same index returns on the fully loaded array, and assigning through the on-disk handle followed by a read
equals performing the same assignment in memory; writing beyond the end of an unlimited dimension extends the axis
with the supplied labels.  Reading several files at once equals reading each file and stacking the results along a
new axis, or concatenating them along an existing one, with the given keys."

Oracle (differential): the same index / assignment / join on the fully loaded objects.  Runs on the netCDF4
stand-in (vlib/fake_netcdf4), see C19.
"""
import itertools
import collections
import copy as _copy
import os
import shutil
import tempfile

import numpy as np
from hypothesis import strategies as st

from vlib import core, gen, indexmodel as im
from vlib.core import lib, check, Violation
from props import c01_label_indexing as c01
from props import c19_serialisation as c19

ID = "C20"
FAKE_NETCDF = True
TITLE = "On-disk netCDF access is equivalent to in-memory access"
RULE = ("read: generated files (Dataset.write_nc of 1-3 variables, 0-d to 3-d, float/int/str values, int/float/str labels in any order) x "
        "per-dimension label descriptors (scalar incl. absent, list, mask, label slice, full) and position descriptors (int, list, mask, "
        "slice) x every on-disk spelling (h[name][t], .loc, .sel, .read(t), read(i, axis=), read_nc(f, name, indices=, indexing=), "
        ".ix/.iloc/.isel, keepdims; nloc / tol=) and whole-dataset reads (h.read(indices=), read_nc(f, indices=), h.sel / h.isel); "
        "write: programs of on-disk assignments (label / position; scalar, ndarray, DimArray block) interleaved with reads and close / "
        "reopen against a shadow in-memory array; unlimited dimension: append(name, None), initial fill, appends at ix[n], ix[n:m], "
        "ix[[n, n+1]] with labels, second variable on the same dimension; multi-file: read_nc([f1, f2(, f3)], axis=new | existing, keys, "
        "align, sort) vs stack_ds / concatenate_ds of the single reads.  Non-trivial: a non-full index on a variable with >= 2 dims or a "
        "str axis, a write followed by a read of an overlapping region, an append, or a multi-file join.")
ASSUMPTIONS = list(c19.ASSUMPTIONS) + [
    "a scalar read may come back as a 0-d DimArray on disk and as a NumPy scalar in memory: compared by value",
    "DimArray blocks assigned on disk carry all of the variable's dimensions (documented usage)",
]
MANDATORY = ["read:variable-not-on-the-file's-first-dimension", "read:label", "read:position", "read:tol", "read:dataset", "read:absent->IndexError", "read:str-axis", "read:0d", "read:0d-with-an-index", "read:mask", "read:slice",
             "write:replace-variable", "write:label", "write:position", "write:ndarray", "write:dimarray", "write:reopen", "unlimited:append-scalar", "unlimited:append-slice",
             "unlimited:append-list", "unlimited:second-variable", "unlimited:second-variable-int", "multi:stack", "multi:concatenate", "multi:align", "multi:keys", "multi:concatenate-keys"]


def budget(tier):
    return {"quick": dict(examples=900, shards=1), "thorough": dict(examples=5000, shards=16)}[tier]


# ----------------------------------------------------------------------------------------------
# generators
# ----------------------------------------------------------------------------------------------

@st.composite
def file_spec(draw, min_vars=1, max_vars=3, numeric=False, min_dims=0):
    dimlabels = collections.OrderedDict()
    vs = []
    for j in range(draw(st.integers(min_vars, max_vars))):
        v = draw(c19.nc_variable(dimlabels, numeric, "v%d" % j))
        v[1].pop("nan", None) if False else None
        if len(v[1]["dims"]) < min_dims:
            # add fresh dimensions until the variable has enough of them
            for d in ["x", "y", "z", "w", "t"]:
                if len(v[1]["dims"]) >= min_dims:
                    break
                if d not in v[1]["dims"] and d not in dimlabels:
                    v[1]["dims"].append(d)
                    v[1]["labels"].append(draw(gen.labels(draw(st.integers(1, 4)), kinds="if" if numeric else "ifs")))
            v[1].pop("nan", None)
            if len(v[1]["dims"]) < min_dims:
                continue
        for d, l in zip(v[1]["dims"], v[1]["labels"]):
            dimlabels.setdefault(d, l)
        vs.append(v)
    if not vs:
        vs = [["v0", {"dims": ["x"], "labels": [[3, 1, 2]], "vk": "f", "base": 0, "attrs": {}}]]
    return {"vars": vs, "attrs": {"title": "file"}}


@st.composite
def read_case(draw):
    fs = draw(file_spec(min_dims=draw(st.sampled_from([0, 1, 1, 2, 2]))))
    vi = draw(st.integers(0, len(fs["vars"]) - 1))
    spec = fs["vars"][vi][1]
    n_abs = 0
    lidx = []
    for labs in spec["labels"]:
        k = draw(st.integers(0, 9))
        if k == 0 and labs:
            b0, b1 = draw(st.sampled_from([None] + list(labs))), draw(st.sampled_from([None] + list(labs)))
            d = {"k": "slice", "v": [b0, b1, draw(st.sampled_from([None, None, 2, -1]))]}
        else:
            d = draw(c01.label_desc(labs, allow_absent=(n_abs == 0)))
        if "absent" in d:
            n_abs += 1
        if d["k"] == "mask":
            d["as"] = "array"
        lidx.append(d)
    pidx = [draw(c01.pos_desc(len(labs))) for labs in spec["labels"]]
    tol = None
    numeric_dims = [i for i, l in enumerate(spec["labels"]) if l and core.label_kind(l) in "if"]
    if numeric_dims and draw(st.booleans()):
        i = draw(st.sampled_from(numeric_dims))
        base = draw(st.sampled_from(spec["labels"][i]))
        tol = {"dim": i, "q": base + draw(st.sampled_from([0, 0.125, -0.25, 0.5, 1.0, -2.5])), "tol": draw(st.sampled_from([0.25, 0.5, 1.0, "inf"]))}
    return {"mode": "read", "file": fs, "var": vi, "lidx": lidx, "pidx": pidx, "tol": tol, "keepdims": draw(st.booleans()),
            "by": draw(st.sampled_from(["label", "label", "position"]))}


@st.composite
def write_case(draw):
    fs = draw(file_spec(min_vars=1, max_vars=2, min_dims=1))
    vi = draw(st.integers(0, len(fs["vars"]) - 1))
    spec = fs["vars"][vi][1]
    steps = []
    for _ in range(draw(st.integers(1, 6))):
        kind = draw(st.sampled_from(["label", "label", "position", "position", "reopen", "read", "replace"]))
        if kind in ("label", "position"):
            idx = []
            for labs in spec["labels"]:
                n = len(labs)
                if kind == "label":
                    form = draw(st.sampled_from(["full", "scalar", "list", "slice"]))
                    if form == "scalar":
                        idx.append({"k": "scalar", "v": draw(st.sampled_from(labs))})
                    elif form == "list":
                        idx.append({"k": "list", "v": list(draw(st.permutations(labs)))[:draw(st.integers(1, n))], "as": "list"})
                    elif form == "slice":
                        idx.append({"k": "slice", "v": [draw(st.sampled_from([None] + list(labs))), None, None]})
                    else:
                        idx.append({"k": "full"})
                else:
                    form = draw(st.sampled_from(["full", "pscalar", "plist", "pslice"]))
                    if form == "pscalar":
                        idx.append({"k": "pscalar", "v": draw(st.integers(0, n - 1))})
                    elif form == "plist":
                        idx.append({"k": "plist", "v": list(draw(st.permutations(list(range(n)))))[:draw(st.integers(1, n))], "as": "list"})
                    elif form == "pslice":
                        idx.append({"k": "pslice", "v": [draw(st.integers(0, n - 1)), None, draw(st.sampled_from([None, 2]))]})
                    else:
                        idx.append({"k": "full"})
            steps.append({"k": kind, "idx": idx, "rhs": draw(st.sampled_from(["scalar", "ndarray", "dimarray"] + (["dimarray-other-labels"] if kind == "position" else []))),
                          "base": draw(st.integers(0, 9))})
        elif kind == "replace":
            steps.append({"k": kind, "how": draw(st.sampled_from(["handle", "handle", "write_nc"])), "base": draw(st.integers(0, 9))})
        else:
            steps.append({"k": kind})
    return {"mode": "write", "file": fs, "var": vi, "steps": steps}


@st.composite
def unlimited_case(draw):
    lon = draw(gen.labels(draw(st.integers(1, 3)), kinds="if"))
    twod = draw(st.booleans())
    kind = draw(st.sampled_from("ifs"))
    n0 = draw(st.integers(1, 3))
    pool = {"i": list(range(2000, 2012)), "f": [0.5 * k for k in range(12)], "s": list("abcdefghijkl")}[kind]
    appends = []
    n = n0
    for _ in range(draw(st.integers(1, 3))):
        form = draw(st.sampled_from(["scalar", "slice", "list"]))
        cnt = 1 if form == "scalar" else 2
        appends.append({"form": form, "at": n, "count": cnt})
        n += cnt
    late = draw(st.booleans())
    return {"mode": "unlimited", "lon": lon, "twod": twod, "kind": kind, "n0": n0, "labels": pool[:n + (1 if late else 0)], "appends": appends, "second": draw(st.booleans()) and not late,
            "late_label": late, "second_int": draw(st.booleans()),
            "order": draw(st.sampled_from(["time-first", "lon-first"]))}


@st.composite
def multi_case(draw):
    numeric = draw(st.booleans())
    fs = draw(file_spec(min_vars=1, max_vars=2, numeric=numeric, min_dims=1))
    dims = collections.OrderedDict()
    for _, s in fs["vars"]:
        for d, l in zip(s["dims"], s["labels"]):
            dims.setdefault(d, l)
    how = draw(st.sampled_from(["stack", "concatenate", "concatenate"]))
    cdim = None
    if how == "concatenate":
        common = [d for d in dims if all(d in s["dims"] for _, s in fs["vars"])]
        if not common:
            how = "stack"
        else:
            cdim = draw(st.sampled_from(common))
    align = draw(st.booleans())
    others = []
    for j in range(draw(st.integers(1, 2))):
        o = {}
        for d, l in dims.items():
            kind = core.label_kind(l)
            if d == cdim:
                o[d] = draw(gen.related_labels(l, kind, relation="disjoint"))[1]
            elif align and draw(st.integers(0, 3)) > 0:
                o[d] = draw(gen.related_labels(l, kind, relation=draw(st.sampled_from(["permuted", "overlapping", "subset"]))))[1]
            elif not align and draw(st.integers(0, 5)) == 0:
                o[d] = [(x + "_" if isinstance(x, str) else x + 100) for x in l[:-1]] + list(l[-1:])       # same length, other labels: must be refused
        others.append(o)
    return {"mode": "multi", "file": fs, "others": others, "how": how, "cdim": cdim, "align": align, "sort": draw(st.booleans()) if align else False,
            "keys": draw(st.sampled_from([None, "str", "int"])), "names": draw(st.sampled_from([None, None, "first"])),
            "ckeys": draw(st.sampled_from([None, None, "reversed", "rotated", "subset"]))}


def strategy(tier):
    return st.one_of(read_case(), read_case(), write_case(), unlimited_case(), multi_case())


def enumerate_cases(tier):
    """reading several files at once: {stack, concatenate along x, along y} x {no align, align, align + sort} x keys x how the
    secondary axes of the second / third file relate to the first file's (equal, permuted, overlapping, subset) x 2-3 files"""
    lx, ly, ls = [3, 1, 2], [0.5, 2.5, 1.5], ["b", "c", "a"]
    fs = {"vars": [["v0", {"dims": ["x", "y"], "labels": [lx, ly], "vk": "f", "base": 0, "attrs": {"units": "m"}}],
                   ["v1", {"dims": ["y", "s", "x"], "labels": [ly, ls, lx], "vk": "i", "base": 30, "attrs": {}}]], "attrs": {"title": "file"}}
    rel = {"equal": {"x": lx, "y": ly, "s": ls}, "permuted": {"x": [1, 2, 3], "y": [2.5, 1.5, 0.5], "s": ["c", "a", "b"]},
           "overlapping": {"x": [7, 2], "y": [1.5, 0.25], "s": ["d", "b"]}, "subset": {"x": [2, 3], "y": [2.5], "s": ["a"]},
           "other-labels": {"x": [3, 1, 20], "y": [0.5, 2.5, 9.5], "s": ["b", "c", "zz"]}}
    disjoint = {"x": [[9, 8], [20]], "y": [[7.5, 6.5], [-1.0]]}
    for how, cdim in (("stack", None), ("concatenate", "x"), ("concatenate", "y")):
        for align, sort in ((False, False), (True, False), (True, True)):
            for r in (["equal", "other-labels", "permuted"] if not align else ["equal", "permuted", "overlapping", "subset"]):       # (without align, differing secondary axes must be refused)
                for nfiles in (2, 3):
                    for keys in ((None, "str") if how == "stack" else (None,)):
                        others = []
                        for j in range(nfiles - 1):
                            o = {d: list(l) for d, l in rel[r if j == 0 else "permuted" if align else "equal"].items()}
                            if cdim:
                                o[cdim] = list(disjoint[cdim][j])
                            others.append(o)
                        yield "multi-file-grid", {"mode": "multi", "file": fs, "others": others, "how": how, "cdim": cdim, "align": align, "sort": sort,
                                                  "keys": keys, "names": None}
    # slices read from disk: every position slice (start, stop, step incl. negative steps of 2 and 3) on both dimensions of a 4 x 5 variable,
    # and label slices on an increasing and a decreasing axis - values AND labels against the loaded array
    fs2 = {"vars": [["v0", {"dims": ["x", "y"], "labels": [[40, 30, 20, 10], [0.5, 1.5, 2.5, 3.5, 4.5]], "vk": "f", "base": 0, "attrs": {}}]], "attrs": {}}
    for dim in (0, 1):
        n = 4 if dim == 0 else 5
        for step in (None, 2, -1, -2, -3):
            for start in (None, 0, 1, n - 1, -2):
                for stop in (None, 0, 2, -1):
                    pidx = [{"k": "full"}, {"k": "full"}]
                    pidx[dim] = {"k": "pslice", "v": [start, stop, step]}
                    yield "ondisk-slice-grid", {"mode": "read", "file": fs2, "var": 0, "lidx": [{"k": "full"}, {"k": "full"}], "pidx": pidx, "tol": None, "keepdims": False, "by": "label"}
    for lidx in ([{"k": "slice", "v": [30, 10, -2]}, {"k": "full"}], [{"k": "slice", "v": [None, None, -2]}, {"k": "full"}], [{"k": "full"}, {"k": "slice", "v": [4.5, 0.5, -2]}],
                 [{"k": "full"}, {"k": "slice", "v": [3.5, None, -3]}], [{"k": "slice", "v": [40, 20, 2]}, {"k": "slice", "v": [None, 1.5, -2]}]):
        yield "ondisk-slice-grid", {"mode": "read", "file": fs2, "var": 0, "lidx": lidx, "pidx": [{"k": "full"}, {"k": "full"}], "tol": None, "keepdims": False, "by": "label"}
    # label slices on axes stored in every order (sorted, reversed, shuffled): the bounds are located exactly, as in memory
    for perm in itertools.permutations([10, 20, 30, 40]):
        fs3 = {"vars": [["v0", {"dims": ["x", "y"], "labels": [[0.5, 1.5], list(perm)], "vk": "f", "base": 0, "attrs": {}}]], "attrs": {}}
        for i0 in range(4):
            for i1 in range(i0 + 1, 4):
                yield "label-slices-on-shuffled-ondisk-axes", {"mode": "read", "file": fs3, "var": 0, "lidx": [{"k": "full"}, {"k": "slice", "v": [perm[i0], perm[i1], None]}],
                                                               "pidx": [{"k": "full"}, {"k": "full"}], "tol": None, "keepdims": False, "by": "label"}
    # several variables created through ONE writable handle (h[name] = array): what one assignment needed (e.g. the fill value taken
    # from the CF attribute `missing_value` of the first array) must not leak into the next: each later variable reads back as assigned
    for first_missing in (None, -99, 0):
        for vk in ("i", "f"):
            for hmode in ("w", "a"):
                for where in ("values", "labels", "both"):
                    yield "one-handle-several-creations", {"mode": "onehandle", "missing": first_missing, "vk": vk, "hmode": hmode, "where": where}


# ----------------------------------------------------------------------------------------------
# helpers
# ----------------------------------------------------------------------------------------------

def write_file(path, fs, relabel=None, base_shift=0):
    da = core.env.import_dimarray()
    ds = da.Dataset()
    for name, spec in fs["vars"]:
        s = dict(spec)
        if relabel:
            s["labels"] = [list(relabel.get(d, l)) for d, l in zip(spec["dims"], spec["labels"])]
            s.pop("nan", None)
        s["base"] = spec.get("base", 0) + base_shift
        ds[name] = c19.build_var(s)
    ds.attrs.update(fs.get("attrs", {}))
    ds.write_nc(path)
    return ds


def scalarish(x):
    da = core.env.import_dimarray()
    if isinstance(x, da.DimArray):
        return x.ndim == 0
    return np.ndim(x) == 0


def same(got, exp, what, sig):
    """on-disk result vs in-memory result"""
    da = core.env.import_dimarray()
    if scalarish(exp) or scalarish(got):
        check(scalarish(got) and scalarish(exp), "scalar-vs-array", {"what": what, "on_disk": core.brief(got), "in_memory": core.brief(exp)}, sig)
        g = got.values if isinstance(got, da.DimArray) else got
        e = exp.values if isinstance(exp, da.DimArray) else exp
        g = np.ma.filled(g, np.nan) if isinstance(g, np.ma.MaskedArray) else g
        check(core.same_scalar(np.asarray(g, dtype=object).item(), np.asarray(e, dtype=object).item()), "value", {"what": what, "on_disk": core.jsonable(g), "in_memory": core.jsonable(e)}, sig)
        return
    check(isinstance(got, da.DimArray), "not-a-dimarray", {"what": what, "on_disk": core.brief(got)}, sig)
    core.expect_equal_arrays(got, exp, what, sig=sig)
    # "exactly what the same index returns on the loaded array": also the kind of the data and of the labels (where there are any)
    kk = lambda dt: "s" if dt.kind in "OUS" else ("i" if dt.kind in "iu" else dt.kind)
    if got.values.size:
        check(kk(got.values.dtype) == kk(exp.values.dtype), "value-kind", {"what": what, "on_disk": str(got.values.dtype), "in_memory": str(exp.values.dtype)}, sig)
    for i, d_ in enumerate(exp.dims):
        if exp.axes[i].size:
            check(kk(got.axes[i].values.dtype) == kk(exp.axes[i].values.dtype), "label-kind", {"what": what, "dim": d_, "on_disk": str(got.axes[i].values.dtype),
                                                                                                 "in_memory": str(exp.axes[i].values.dtype)}, sig)


def same_dataset(got, exp, what, sig, order=True):
    da = core.env.import_dimarray()
    check(isinstance(got, da.Dataset), "not-a-dataset", {"what": what}, sig)
    check(list(got.keys()) == list(exp.keys()), "keys", {"what": what, "on_disk": list(got.keys()), "in_memory": list(exp.keys())}, sig)
    check(sorted(got.dims) == sorted(exp.dims), "dataset-dims", {"what": what, "on_disk": list(got.dims), "in_memory": list(exp.dims)}, sig)
    for k in exp.keys():
        same(got[k], exp[k], what + " var " + str(k), sig)
    core.check_shared_axes(got, what, sig)


def same_dataset_ordered(got, exp, what, sig):
    """single-file reads: the dataset's dimensions also come in the same order as after the same selection in memory"""
    same_dataset(got, exp, what, sig)
    check(list(got.dims) == list(exp.dims), "dataset-dims-order", {"what": what, "on_disk": list(got.dims), "in_memory": list(exp.dims)}, sig)


def outcome(f):
    import contextlib
    try:
        with np.errstate(all="ignore"), contextlib.redirect_stdout(core._DEVNULL):
            return ("ok", f())
    except Exception as e:
        return ("exc", e)


_OUTCOMES = collections.Counter()


def differential(disk_f, mem_f, what, sig, compare=same):
    """both sides return equal results or raise the same exception type"""
    m = outcome(mem_f)
    d = outcome(disk_f)
    _OUTCOMES["outcome:" + sig.get("mode", "?") + ":" + ("returned" if m[0] == "ok" else type(m[1]).__name__)] += 1
    if m[0] == "exc" or d[0] == "exc":
        if m[0] != d[0] or type(m[1]) is not type(d[1]):
            raise Violation("on-disk-and-in-memory-disagree", {"what": what, "in_memory": repr(m[1])[:300] if m[0] == "exc" else "returned " + str(core.brief(m[1]))[:300],
                                                               "on_disk": repr(d[1])[:300] if d[0] == "exc" else "returned " + str(core.brief(d[1]))[:300],
                                                               "frame": core.innermost_lib_frame(d[1]) if d[0] == "exc" else None},
                            sig=dict(sig, exc=type(d[1]).__name__ if d[0] == "exc" else type(m[1]).__name__))
        return "raised:" + type(m[1]).__name__
    compare(d[1], m[1], what, sig)
    return "ok"


# ----------------------------------------------------------------------------------------------

def run_read(case, tmp):
    da = core.env.import_dimarray()
    path = os.path.join(tmp, "r.nc")
    write_file(path, case["file"])
    name, spec = case["file"]["vars"][case["var"]]
    dims, labels = spec["dims"], spec["labels"]
    nd = len(dims)
    loaded = da.read_nc(path)
    A = loaded[name]
    h = da.open_nc(path)
    cl = set()
    try:
        v = h[name]
        lidx, pidx = case["lidx"], case["pidx"]
        lt = tuple(im.index_object(d) for d in lidx)
        pt = tuple(im.index_object(d) for d in pidx)
        nonfull_l = [i for i, d in enumerate(lidx) if d["k"] != "full"]
        nonfull_p = [i for i, d in enumerate(pidx) if d["k"] != "full"]
        ldict = {dims[i]: lt[i] for i in nonfull_l}
        pdict = {dims[i]: pt[i] for i in nonfull_p}
        ldict_arg, pdict_arg = dict(ldict), dict(pdict)      # ONE mapping object per mode handed to every dict spelling (an argument is not consumed)
        sig = {"mode": "read-label"}
        base = "var %s dims=%s labels=%s " % (name, dims, labels)
        # ---- label spellings: every on-disk spelling against the in-memory take
        mem = lambda: A.take(lt)
        spellings = [("h[name][t]", lambda: v[lt]), ("h[name].loc[t]", lambda: v.loc[lt]), ("h[name].sel(**)", lambda: v.sel(**ldict)), ("h[name].read(t)", lambda: v.read(lt)),
                     ("h[name].read(indices=dict)", lambda: v.read(indices=ldict_arg)), ("read_nc(f, name, indices=dict)", lambda: da.read_nc(path, name, indices=ldict_arg)),
                     ("h.read(name, indices=dict)", lambda: h.read(name, indices=ldict_arg)), ("h[name][dict]", lambda: v[ldict_arg]),
                     # index tuples (not mappings) refer to the VARIABLE's own dimensions, whatever the file's dimension order is
                     ("read_nc(f, name, indices=tuple)", lambda: da.read_nc(path, name, indices=lt)), ("h.read(name, indices=tuple)", lambda: h.read(name, indices=lt))]
        if len(nonfull_l) == 1:
            i = nonfull_l[0]
            spellings.append(("h[name].read(i, axis=name)", lambda: v.read(lt[i], axis=dims[i])))
            spellings.append(("read_nc(f, name, indices=i, axis=name)", lambda: da.read_nc(path, name, indices=lt[i], axis=dims[i])))
            spellings.append(("read_nc(f, name, indices=i, axis=position in the variable)", lambda: da.read_nc(path, name, indices=lt[i], axis=i)))
            spellings.append(("h.read(name, indices=i, axis=position in the variable)", lambda: h.read(name, indices=lt[i], axis=i)))
            if i == 0:
                spellings.append(("read_nc(f, name, indices=i)", lambda: da.read_nc(path, name, indices=lt[0])))
        if nd and list(loaded.dims)[0] != dims[0]:
            cl.add("read:variable-not-on-the-file's-first-dimension")
        for sname, f in spellings:
            r = differential(f, mem, base + "%s lidx=%s" % (sname, core.jsonable(lidx)), sig)
            check(list(ldict_arg.keys()) == list(ldict.keys()) and all(ldict_arg[k_] is ldict[k_] for k_ in ldict), "index-mapping-modified",
                  {"what": base + sname, "now": core.jsonable(list(ldict_arg.keys())), "was": core.jsonable(list(ldict.keys()))}, sig)
            if r.startswith("raised:IndexError"):
                cl.add("read:absent->IndexError")
        if case["keepdims"]:
            differential(lambda: v.read(lt, keepdims=True), lambda: A.take(lt, keepdims=True), base + "read(keepdims) lidx=%s" % core.jsonable(lidx), sig)
        cl.add("read:label")
        # ---- position spellings
        sig = {"mode": "read-position"}
        memp = lambda: A.take(pt, indexing="position")
        for sname, f in [("h[name].ix[t]", lambda: v.ix[pt]), ("h[name].iloc[t]", lambda: v.iloc[pt]), ("h[name].isel(**)", lambda: v.isel(**pdict)),
                         ("h[name].read(t, indexing=position)", lambda: v.read(pt, indexing="position")),
                         ("read_nc(f, name, indices=, indexing=position)", lambda: da.read_nc(path, name, indices=pdict_arg, indexing="position")),
                         ("read_nc(f, name, indices=tuple, indexing=position)", lambda: da.read_nc(path, name, indices=pt, indexing="position")),
                         ("h.read(name, indices=tuple, indexing=position)", lambda: h.read(name, indices=pt, indexing="position"))]:
            differential(f, memp, base + "%s pidx=%s" % (sname, core.jsonable(pidx)), sig)
            check(list(pdict_arg.keys()) == list(pdict.keys()), "index-mapping-modified", {"what": base + sname, "now": core.jsonable(list(pdict_arg.keys()))}, sig)
        if case["keepdims"]:
            differential(lambda: v.read(pt, indexing="position", keepdims=True), lambda: A.take(pt, indexing="position", keepdims=True), base + "read(t, indexing=position, keepdims=True) pidx=%s" % core.jsonable(pidx), sig)
            differential(lambda: da.read_nc(path, name, indices=dict(pdict), indexing="position", keepdims=True), lambda: A.take(dict(pdict), indexing="position", keepdims=True),
                         base + "read_nc(f, name, indices=dict, indexing=position, keepdims=True) pidx=%s" % core.jsonable(pidx), sig)
        cl.add("read:position")
        # ---- tolerance
        t = case["tol"]
        if t is not None:
            sig = {"mode": "read-tol"}
            d = dims[t["dim"]]
            tol = float("inf") if t["tol"] == "inf" else t["tol"]
            differential(lambda: v.read(t["q"], axis=d, tol=tol), lambda: A.take(t["q"], axis=d, tol=tol), base + "read(q=%r, axis=%s, tol=%r)" % (t["q"], d, t["tol"]), sig)
            differential(lambda: da.read_nc(path, name, indices={d: t["q"]}, tol=tol), lambda: A.take({d: t["q"]}, tol=tol), base + "read_nc(indices={%s: %r}, tol=%r)" % (d, t["q"], t["tol"]), sig)
            if t["tol"] == "inf":
                differential(lambda: v.nloc[{d: t["q"]}], lambda: A.nloc[{d: t["q"]}], base + "nloc[{%s: %r}]" % (d, t["q"]), sig)
            cl.add("read:tol")
        # ---- whole-dataset reads
        sig = {"mode": "read-dataset"}
        dsdims = list(loaded.dims)
        if dsdims and ldict:
            k0 = list(ldict)[0]
            one = {k0: ldict[k0]}
            if lidx[dims.index(k0)]["k"] != "mask":
                differential(lambda: h.read(indices=dict(one)), lambda: loaded.take(indices=dict(one)), base + "h.read(indices=%s)" % core.jsonable(one), sig, compare=same_dataset_ordered)
                differential(lambda: da.read_nc(path, indices=dict(one)), lambda: loaded.take(indices=dict(one)), base + "read_nc(f, indices=%s)" % core.jsonable(one), sig, compare=same_dataset_ordered)
                differential(lambda: h.sel(**one), lambda: loaded.sel(**one), base + "h.sel(%s)" % core.jsonable(one), sig, compare=same_dataset_ordered)
                cl.add("read:dataset")
        if dsdims and len(loaded.axes[dsdims[0]]) > 0:
            # a bare index at dataset level acts on the dataset's first dimension (also the index 0, an empty list, a list of one position)
            for bare in (0, -1, [0], [], slice(0, 1)):
                differential(lambda: h.read(indices=bare, indexing="position"), lambda: loaded.take(indices=bare, axis=dsdims[0], indexing="position"), base + "h.read(indices=%r, indexing=position)" % (bare,), sig, compare=same_dataset_ordered)
                differential(lambda: da.read_nc(path, indices=bare, indexing="position"), lambda: loaded.take(indices=bare, axis=dsdims[0], indexing="position"), base + "read_nc(f, indices=%r, indexing=position)" % (bare,), sig, compare=same_dataset_ordered)
            differential(lambda: h.ix[0], lambda: loaded.ix[0], base + "h.ix[0]", sig, compare=same_dataset_ordered)
            cl.add("read:dataset-bare-index")
        if dsdims and pdict:
            k0 = list(pdict)[0]
            one = {k0: pdict[k0]}
            if pidx[dims.index(k0)]["k"] != "pmask":
                differential(lambda: h.isel(**one), lambda: loaded.isel(**one), base + "h.isel(%s)" % core.jsonable(one), sig, compare=same_dataset_ordered)
        if nd == 0 and isinstance(A, da.DimArray):
            # a variable without dimensions takes no index, on disk as in memory: both refuse (an index must not be silently ignored)
            sig = {"mode": "read-0d"}
            for iname, on_disk, in_mem in (("[0]", lambda: v[0], lambda: A[0]), ("[[0, 1]]", lambda: v[[0, 1]], lambda: A[[0, 1]]), ("[0:1]", lambda: v[0:1], lambda: A[0:1]),
                                           (".ix[0]", lambda: v.ix[0], lambda: A.ix[0]), ("read(indices=0)", lambda: v.read(indices=0), lambda: A.take(0)),
                                           ("read_nc(f, name, indices=0)", lambda: da.read_nc(path, name, indices=0), lambda: A.take(0))):
                m_ = outcome(in_mem)
                d_ = outcome(on_disk)
                check((m_[0] == "exc") == (d_[0] == "exc"), "on-disk-and-in-memory-disagree", {"what": base + "0-d variable " + iname, "in_memory": repr(m_[1])[:200], "on_disk": repr(d_[1])[:200]}, sig)
            cl.add("read:0d-with-an-index")
        # classes
        if any(l and core.label_kind(l) == "s" for l in labels):
            cl.add("read:str-axis")
        if nd == 0:
            cl.add("read:0d")
        if any(d["k"] == "mask" for d in lidx):
            cl.add("read:mask")
        if any(d["k"] == "slice" for d in lidx):
            cl.add("read:slice")
    finally:
        h.close()
    if case.get("by") == "position":
        # the same comparison under the option indexing.by='position' (plain [] is positional, .ix toggles to labels): the on-disk
        # handle and the loaded array, both created under the option, must still agree spelling by spelling
        with core.options(indexing_by="position"):
            A2 = da.read_nc(path)[name]
            h2 = da.open_nc(path)
            try:
                v2 = h2[name]
                sig = {"mode": "read-by-position"}
                for sname, f, g in [("h[name][t] (by=position)", lambda: v2[pt], lambda: A2[pt]), ("h[name].ix[t] (by=position)", lambda: v2.ix[lt], lambda: A2.ix[lt]),
                                    ("h[name].loc[t] (by=position)", lambda: v2.loc[lt], lambda: A2.loc[lt]), ("h[name].iloc[t] (by=position)", lambda: v2.iloc[pt], lambda: A2.iloc[pt]),
                                    ("h[name].sel(**) (by=position)", lambda: v2.sel(**ldict), lambda: A2.sel(**ldict)),
                                    ("h[name].isel(**) (by=position)", lambda: v2.isel(**pdict), lambda: A2.isel(**pdict))]:
                    differential(f, g, base + "%s lidx=%s pidx=%s" % (sname, core.jsonable(lidx), core.jsonable(pidx)), sig)
                cl.add("read:by-position")
            finally:
                h2.close()
    nontrivial = (nd >= 2 or "read:str-axis" in cl) and (bool(nonfull_l) or bool(nonfull_p))
    return {"classes": sorted(cl), "nontrivial": nontrivial}


def run_write(case, tmp):
    da = core.env.import_dimarray()
    path = os.path.join(tmp, "w.nc")
    write_file(path, case["file"])
    name, spec = case["file"]["vars"][case["var"]]
    dims, labels = spec["dims"], spec["labels"]
    shadow = da.read_nc(path, name)          # in-memory twin that receives the same assignments
    others = {n: da.read_nc(path, n) for n, _ in case["file"]["vars"] if n != name}
    h = da.open_nc(path, "a")
    cl = set()
    wrote = False
    nontrivial = False
    try:
        for si, step in enumerate(case["steps"]):
            k = step["k"]
            sig = {"mode": "write", "step": k}
            what = "step %d %s var %s dims=%s labels=%s" % (si, k, name, dims, labels)
            if k == "reopen":
                h.close()
                h = da.open_nc(path, "a")
                cl.add("write:reopen")
            elif k == "replace":
                # the whole variable assigned again under its existing name (same axes, other values): h[name] = array, or write_nc(mode='a')
                new_arr = c19.build_var(dict(spec, base=700 + 10 * si + step["base"], hist={"mode": "none"}))
                if spec.get("nan"):
                    new_arr = c19.build_var(dict(spec, base=700 + 10 * si + step["base"], hist={"mode": "none"}, nan=spec["nan"][:1]))
                if step["how"] == "handle":
                    lib(lambda: h.__setitem__(name, new_arr), what=what + " h[name] = array of the same axes", sig=sig)
                else:
                    h.close()
                    lib(lambda: new_arr.write_nc(path, name, mode="a"), what=what + " array.write_nc(f, name, mode='a') over the existing variable", sig=sig)
                    h = da.open_nc(path, "a")
                shadow = da.DimArray(np.array(new_arr.values, copy=True), axes=[ax.copy() for ax in shadow.axes])
                wrote = True
                cl.add("write:replace-variable")
            elif k in ("label", "position"):
                descs = step["idx"]
                idx = tuple(im.index_object(d) for d in descs)
                per = [im.positions(l, d) for l, d in zip(labels, descs)]
                if any(kind == "alts" for kind, _ in per):
                    continue
                kept = [(d, [labels[i][p] for p in pp]) for i, (d, (kind, pp)) in enumerate(zip(dims, per)) if kind != "scalar"]
                shape = tuple(len(l) for _, l in kept)
                n = int(np.prod(shape)) if shape else 1
                vk = spec["vk"]
                vals = c19.build_var({"dims": ["q"], "labels": [list(range(n))], "vk": vk, "base": 500 + 10 * si + step["base"], **({"dtype": spec["dtype"]} if spec.get("dtype") else {})}).values.reshape(shape)
                if step["rhs"] == "scalar" or not shape:
                    rhs = vals.ravel()[0].item() if hasattr(vals.ravel()[0], "item") else vals.ravel()[0]
                    cl.add("write:scalar")
                elif step["rhs"] == "ndarray":
                    rhs = vals
                    cl.add("write:ndarray")
                else:
                    # a DimArray block carrying all of the variable's dimensions (scalar-indexed ones as singletons)
                    full_labels = [[labels[i][p] for p in ([pp] if kind == "scalar" else pp)] for i, (kind, pp) in enumerate(per)]
                    if step["rhs"] == "dimarray-other-labels":
                        # a block whose own labels are not the target's: assigned by position, the file keeps its labels
                        full_labels = [[(x + "_" if isinstance(x, str) else x + 1000) for x in l] for l in full_labels]
                        cl.add("write:dimarray-other-labels")
                    rhs = da.DimArray(vals.reshape([len(l) for l in full_labels]), axes=[da.Axis(core.label_array(l), d) for d, l in zip(dims, full_labels)])
                    cl.add("write:dimarray")
                what += " idx=%s rhs=%s" % (core.jsonable(descs), core.jsonable(rhs if not hasattr(rhs, "axes") else rhs.values))
                mem_rhs = rhs.values.reshape(shape) if hasattr(rhs, "axes") else rhs
                if k == "label":
                    lib(lambda: h[name].__setitem__(idx, rhs), what=what, sig=sig)
                    shadow.put(idx, mem_rhs)
                    cl.add("write:label")
                else:
                    lib(lambda: h[name].ix.__setitem__(idx, rhs), what=what, sig=sig)
                    shadow.put(idx, mem_rhs, indexing="position")
                    cl.add("write:position")
                wrote = True
            # after every step: the whole variable, the other variables and (if written) a partial read
            got = lib(lambda: h[name].read(), what=what + " [read back]", sig=sig)
            same(got, shadow, what + " [file content vs shadow]", sig)
            for n_, o in others.items():
                same(lib(lambda: h[n_].read(), what=what, sig=sig), o, what + " [other variable %s untouched]" % n_, sig)
            if wrote:
                nontrivial = True
        h.close()
        h = None
        final = da.read_nc(path, name)
        same(final, shadow, "after close: file content vs shadow", {"mode": "write", "step": "close"})
    finally:
        if h is not None:
            h.close()
    return {"classes": sorted(cl), "nontrivial": nontrivial}


def run_unlimited(case, tmp):
    da = core.env.import_dimarray()
    path = os.path.join(tmp, "u.nc")
    lon, n0, labs = case["lon"], case["n0"], case["labels"]
    twod = case["twod"]
    sig = {"mode": "unlimited"}
    h = da.open_nc(path, "w")
    cl = set()
    try:
        lib(lambda: h.axes.append("time", None), what="axes.append('time', None)", sig=sig)
        vdims = ["time", "lon"] if twod else ["time"]

        def block(rows, base):
            shape = (len(rows), len(lon)) if twod else (len(rows),)
            vals = (np.arange(int(np.prod(shape)), dtype=float) + base).reshape(shape)
            axes = [da.Axis(core.label_array(rows), "time")] + ([da.Axis(core.label_array(lon), "lon")] if twod else [])
            return da.DimArray(vals, axes=axes)
        first = block(labs[:n0], 0)
        lib(lambda: h.__setitem__("v", first), what="h['v'] = initial block time=%s" % labs[:n0], sig=sig)
        exp_vals = first.values.copy()
        exp_time = list(labs[:n0])
        if case["second"]:
            # (an integer-typed second variable cannot hold NaN itself: its never-written records still read as NaN, in a float array)
            w0 = (np.arange(n0, dtype=int) + 5) if case.get("second_int") else (np.arange(n0, dtype=float) + 0.5)
            w = da.DimArray(w0.copy(), axes=[da.Axis(core.label_array(labs[:n0]), "time")])
            if case.get("second_int"):
                cl.add("unlimited:second-variable-int")
            lib(lambda: h.__setitem__("w", w), what="h['w'] = second variable on time", sig=sig)
            cl.add("unlimited:second-variable")
        for ai, ap in enumerate(case["appends"]):
            at, cnt = ap["at"], ap["count"]
            rows = labs[at:at + cnt]
            b = block(rows, 100 * (ai + 1))
            what = "append %s at %d labels=%s" % (ap["form"], at, rows)
            if ap["form"] == "scalar":
                lib(lambda: h["v"].ix.__setitem__(at, b), what=what, sig=sig)
                cl.add("unlimited:append-scalar")
            elif ap["form"] == "slice":
                lib(lambda: h["v"].ix.__setitem__(slice(at, at + cnt), b), what=what, sig=sig)
                cl.add("unlimited:append-slice")
            else:
                lib(lambda: h["v"].ix.__setitem__([at, at + 1], b), what=what, sig=sig)
                cl.add("unlimited:append-list")
            exp_vals = np.concatenate([exp_vals, b.values], axis=0)
            exp_time += list(rows)
            got = lib(lambda: h["v"].read(), what=what + " [read back]", sig=sig)
            check(list(got.dims) == vdims, "dims", {"what": what, "got": list(got.dims)}, sig)
            check(core.same_labels(got.axes["time"].values, exp_time), "unlimited-axis-labels", {"what": what, "got": core.jsonable(got.axes["time"].values), "expected": exp_time}, sig)
            check(got.values.shape == exp_vals.shape and np.array_equal(got.values, exp_vals), "unlimited-values", {"what": what, "got": core.jsonable(got.values), "expected": core.jsonable(exp_vals)}, sig)
            if case["second"]:
                gw = lib(lambda: h["w"].read(), what=what + " [second variable]", sig=sig)
                ew = np.concatenate([w0.astype(float), np.full(len(exp_time) - n0, np.nan)])
                check(core.same_labels(gw.axes["time"].values, exp_time), "unlimited-axis-labels", {"what": what + " [second variable]", "got": core.jsonable(gw.axes["time"].values)}, sig)
                check(gw.values.shape == ew.shape and all(core.same_scalar(x, y) for x, y in zip(gw.values.tolist(), ew.tolist())), "unlimited-second-variable",
                      {"what": what, "got": core.jsonable(gw.values), "expected": core.jsonable(ew)}, sig)
        if case.get("late_label") and len(labs) > len(exp_time):
            # a row appended as a plain ndarray (no label supplied), then assigned again - now inside the extent - as a DimArray that carries its label
            at = len(exp_time)
            lab = labs[at]
            b = block([lab], 900)
            lib(lambda: h["v"].ix.__setitem__(at, b.values[0]), what="append a plain ndarray row at %d" % at, sig=sig)
            what = "h['v'].ix[%d] = DimArray labelled %r (position already inside the unlimited dimension)" % (at, lab)
            lib(lambda: h["v"].ix.__setitem__(at, b), what=what, sig=sig)
            exp_vals = np.concatenate([exp_vals, b.values], axis=0)
            exp_time += [lab]
            got = lib(lambda: h["v"].read(), what=what + " [read back]", sig=sig)
            check(core.same_labels(got.axes["time"].values, exp_time), "unlimited-axis-labels", {"what": what, "got": core.jsonable(got.axes["time"].values), "expected": exp_time}, sig)
            check(got.values.shape == exp_vals.shape and np.array_equal(got.values, exp_vals), "unlimited-values", {"what": what, "got": core.jsonable(got.values), "expected": core.jsonable(exp_vals)}, sig)
            cl.add("unlimited:label-after-ndarray-append")
        h.close()
        h = None
        r = da.read_nc(path, "v")
        check(core.same_labels(r.axes["time"].values, exp_time) and np.array_equal(r.values, exp_vals), "unlimited-after-close", {"got": core.brief(r), "expected_time": exp_time}, sig)
    finally:
        if h is not None:
            h.close()
    return {"classes": sorted(cl), "nontrivial": True}


def run_multi(case, tmp):
    da = core.env.import_dimarray()
    fs = case["file"]
    fnames = ["run_c.nc", "run_a.nc", "run_b.nc"]        # (deliberately not in lexicographic order)
    paths = [os.path.join(tmp, fnames[0])]
    write_file(paths[0], fs)
    for j, o in enumerate(case["others"]):
        p = os.path.join(tmp, fnames[j + 1])
        write_file(p, fs, relabel=o, base_shift=100 * (j + 1))
        paths.append(p)
    singles = [da.read_nc(p) for p in paths]
    names = None if case["names"] is None else [fs["vars"][0][0]]
    if names:
        singles = [da.read_nc(p, names) for p in paths]
    sig = {"mode": "multi", "how": case["how"]}
    kw = {}
    if case["align"]:
        kw.update(align=True)
        if case["sort"]:
            kw.update(sort=True)
    cl = set()
    what = "read_nc(%d files, how=%s, cdim=%s, %s, keys=%s, names=%s) vars=%s others=%s" % (len(paths), case["how"], case["cdim"], kw, case["keys"], names,
                                                                                           core.jsonable([[n, s["dims"], s["labels"]] for n, s in fs["vars"]]), core.jsonable(case["others"]))
    if case["how"] == "stack":
        keys = {"str": ["k%d" % i for i in range(len(paths))][::-1], "int": [10 * (i + 1) for i in range(len(paths))], None: None}[case["keys"]]
        exp_keys = keys if keys is not None else [os.path.splitext(p)[0] for p in paths]
        kwk = dict(kw)
        if keys is not None:
            kwk["keys"] = keys
            cl.add("multi:keys")
        differential(lambda: da.read_nc(list(paths), names, axis="stk", **kwk), lambda: da.stack_ds(list(singles), axis="stk", keys=exp_keys, **kw), what, sig, compare=same_dataset_ordered)
        per_variable = lambda k: da.stack([s_[k] for s_ in singles], axis="stk", keys=exp_keys, **kw)
        cl.add("multi:stack")
    else:
        differential(lambda: da.read_nc(list(paths), names, axis=case["cdim"], **kw), lambda: da.concatenate_ds(list(singles), axis=case["cdim"], **kw), what, sig, compare=same_dataset_ordered)
        per_variable = lambda k: da.concatenate([s_[k] for s_ in singles], axis=case["cdim"], **kw)
        cl.add("multi:concatenate")
        if case.get("ckeys"):
            # "with the given keys": along an existing axis the keys select and order the concatenated labels
            try:
                alll = da.concatenate_ds(list(singles), axis=case["cdim"], **kw).axes[case["cdim"]].values
            except Exception:
                alll = None
            if alll is not None and len(alll) >= 2 and len(set(alll.tolist())) == len(alll):
                ck = {"reversed": alll[::-1], "rotated": np.roll(alll, 1), "subset": alll[::2]}[case["ckeys"]].copy()
                differential(lambda: da.read_nc(list(paths), names, axis=case["cdim"], keys=list(ck.tolist()), **kw),
                             lambda: da.concatenate_ds(list(singles), axis=case["cdim"], **kw).reindex_axis(ck, axis=case["cdim"]), what + " keys=%s" % core.jsonable(ck), sig, compare=same_dataset_ordered)
                got = outcome(lambda: da.read_nc(list(paths), names, axis=case["cdim"], keys=list(ck.tolist()), **kw))
                if got[0] == "ok":
                    check(core.same_labels(got[1].axes[case["cdim"]].values, ck.tolist()), "multi-file-keys-order", {"what": what, "got": core.jsonable(got[1].axes[case["cdim"]].values), "keys": core.jsonable(ck)}, sig)
                cl.add("multi:concatenate-keys")
    # the statement's own wording: "equals reading each file and stacking / concatenating the results" - variable by variable with the
    # DimArray-level joins (independent of the Dataset-level code that the multi-file reader itself uses)
    whole = outcome(lambda: da.read_nc(list(paths), names, axis="stk" if case["how"] == "stack" else case["cdim"], **(kwk if case["how"] == "stack" else kw)))
    for k in (names or list(singles[0].keys())):
        one = outcome(lambda: per_variable(k))
        if one[0] == "exc":
            check(whole[0] == "exc", "multi-file-read-accepts-what-the-per-variable-join-refuses",
                  {"what": what, "var": k, "per_variable": repr(one[1])[:200], "multi_file": str(core.brief(whole[1]))[:300] if whole[0] == "ok" else None}, sig)
        elif whole[0] == "ok":
            same(whole[1][k], one[1], what + " [variable %s against the DimArray-level join of the single reads]" % k, sig)
    if case["align"]:
        cl.add("multi:align")
    return {"classes": sorted(cl), "nontrivial": True}


def run_onehandle(case, tmp):
    da = core.env.import_dimarray()
    path = os.path.join(tmp, "oh.nc")
    mv = case["missing"]
    special = -99 if mv is None else mv
    first = da.DimArray(np.array([[1.5, 2.5], [3.5, 4.5]]), axes=[da.Axis(np.array([10, 20]), "x"), da.Axis(np.array(["p", "q"], dtype=object), "y")])
    if mv is not None:
        first.attrs["missing_value"] = float(mv)
    vals = np.array([[special, 1, 5], [7, special, 9]]) if case["where"] in ("values", "both") else np.array([[4, 1, 5], [7, 8, 9]])
    zl = np.array([special, 3, 1]) if case["where"] in ("labels", "both") else np.array([6, 3, 1])
    if case["vk"] == "f":
        vals = vals + 0.0
    second = da.DimArray(vals, axes=[da.Axis(np.array([10, 20]), "x"), da.Axis(zl, "z")])
    third = da.DimArray(np.array([special, 2]) + (0.0 if case["vk"] == "f" else 0), axes=[da.Axis(np.array([special, 5]), "w")])
    snaps = [core.snapshot(x) for x in (first, second, third)]
    sig = {"mode": "onehandle"}
    what = "one handle (mode=%r): h['a'] = array%s; h['b'] = %s; h['c'] = %s" % (case["hmode"], "" if mv is None else " with missing_value=%r" % mv,
                                                                                 core.brief(second), core.brief(third))
    if case["hmode"] == "a":
        da.DimArray(np.array([1.0, 2.0]), axes=[da.Axis(np.array([10, 20]), "x")]).write_nc(path, "z0", mode="w")

    def f():
        h = da.open_nc(path, case["hmode"])
        try:
            h["a"] = first
            h["b"] = second
            h["c"] = third
        finally:
            h.close()
    lib(f, what=what, sig=sig)
    for x, sn in zip((first, second, third), snaps):
        core.expect_unchanged(x, sn, what + " [assigned array]", sig)
    h = da.open_nc(path)
    try:
        differential(lambda: da.read_nc(path, "b"), lambda: second, what + " read_nc(f, 'b')", sig)
        differential(lambda: h["b"][:], lambda: second, what + " open_nc(f)['b'][:]", sig)
        differential(lambda: h["b"].ix[1, [0, 1]], lambda: second.ix[1, [0, 1]], what + " open_nc(f)['b'].ix[1, [0, 1]]", sig)
        differential(lambda: da.read_nc(path, "c"), lambda: third, what + " read_nc(f, 'c')", sig)
        for nm, arr in (("b", second), ("c", third)):
            got = lib(lambda: da.read_nc(path, nm), what=what, sig=sig)
            check(got.values.dtype.kind == arr.values.dtype.kind, "dtype-kind", {"what": what, "var": nm, "got": str(got.values.dtype), "expected": str(arr.values.dtype)}, sig)
    finally:
        h.close()
    return {"classes": ["onehandle"] + (["onehandle:missing_value"] if mv is not None else []), "nontrivial": True}


def run_case(case):
    tmp = tempfile.mkdtemp(prefix="dimarray-c20-")
    _OUTCOMES.clear()
    try:
        info = {"read": run_read, "write": run_write, "unlimited": run_unlimited, "multi": run_multi, "onehandle": run_onehandle}[case["mode"]](case, tmp)
        info["classes"] = sorted(set(info["classes"]) | set(_OUTCOMES))
        return info
    finally:
        shutil.rmtree(tmp, ignore_errors=True)
