"""C06 - align() is a set union / intersection that neither invents nor loses data.

Statement: "align(arrays, join='outer') returns arrays that have identical axes on every shared dimension,
equal to the set union of the inputs' labels with each label once (inputs that are all sorted in the same
direction give a result sorted in that direction, and sort=True gives ascending labels), where each array
keeps its original values at their original labels and has NaN at labels it did not have.  join='inner' does
the same with the set intersection and needs no fill.  Dimensions that an array does not have are left
alone, and no input array is modified."

Oracle: set algebra on Python lists + per-coordinate comparison on the dict model + operand snapshots.
"""
import numpy as np
from hypothesis import strategies as st

from vlib import core, gen
from vlib.core import lib, check, Violation

ID = "C06"
TITLE = "align() is a set union / intersection that neither invents nor loses data"
RULE = ("generated lists of 1-4 inputs (DimArrays; Datasets and scalars at a lower rate) over a pool of 4 dimensions with any overlap of "
        "dimensions; labels on shared dimensions constructed from a common base (equal | permuted | subset | superset | overlapping | "
        "disjoint), stored asis/inc/dec/shuffled; int/float/str and int-vs-float; join in {outer, inner}, sort in {False, True}, "
        "axis in {None, one dimension}.  Empty axes are generated separately (known finding KF-D9).  Non-trivial: >= 2 inputs share an "
        "aligned dimension with non-identical label vectors, or sort=True meets an unsorted axis, or a dimension is present in exactly one input.")
ASSUMPTIONS = [
    "oracle: Python set algebra for labels, dict model for values; moved values compared exactly (NaN == NaN)",
    "when every input axis has length <= 1 any monotonic result order is accepted",
    "values are float or int (NaN fill promotes int to float)",
]
MANDATORY = ["join:outer", "join:inner", "sort:True", "axis:given", "rel:permuted", "rel:overlapping", "rel:disjoint", "rel:subset",
             "input:dataset", "input:scalar", "dim-in-one-input-only", "all-sorted-inc", "all-sorted-dec", "labels:int-vs-float", "labels:s",
             "sort-on-unsorted", "inner:ordered-result-len>=2", "outer:ordered-result-len>=2", "no-fill:dtype-kept:i", "inputs:aligned-before-under-other-labels", "call:positional", "call:positional+axis"]


def budget(tier):
    return {"quick": dict(examples=3000, shards=1), "thorough": dict(examples=12000, shards=16)}[tier]


@st.composite
def align_case(draw, allow_empty=False):
    pool = draw(gen.dim_pool())
    n = draw(st.integers(1, 4))
    inputs = []
    for i in range(n):
        t = draw(st.sampled_from(["a", "a", "a", "a", "a", "ds", "scalar"]))
        if t == "a":
            inputs.append({"t": "a", "spec": draw(gen.array_over_pool(pool, allow_empty=allow_empty))})
        elif t == "ds":
            inputs.append({"t": "ds", "spec": draw(gen.dataset_over_pool(pool, max_vars=2, allow_empty=allow_empty))})
        else:
            inputs.append({"t": "scalar", "v": draw(st.sampled_from([3, 2.5]))})
    # with probability 1/2 all inputs are stored in one common direction (the ordering clause needs it)
    force = draw(st.sampled_from([None, None, "inc", "dec"]))
    if force:
        for inp in inputs:
            specs = [inp["spec"]] if inp["t"] == "a" else [s for _, s in inp["spec"]["vars"]] if inp["t"] == "ds" else []
            for sp in specs:
                sp["labels"] = [sorted(l, reverse=(force == "dec")) for l in sp["labels"]]
    alld = []
    for inp in inputs:
        for d in _dims(inp):
            if d not in alld:
                alld.append(d)
    axis = None
    if alld and draw(st.integers(0, 3)) == 0:
        axis = draw(st.sampled_from(alld))
    return {"inputs": inputs, "join": draw(st.sampled_from(["outer", "outer", "inner"])), "sort": draw(st.sampled_from([False, False, True])), "axis": axis,
            "rehearse": draw(st.integers(0, 3)) == 0, "positional": draw(st.integers(0, 3)) == 0, "sort_as": draw(st.sampled_from(["bool", "bool", "numpy", "int"]))}


def strategy(tier):
    return align_case()


def witnesses():
    return [("KF-D9", {"inputs": [{"t": "a", "spec": {"dims": ["x"], "labels": [[]], "vk": "f", "base": 0}},
                                  {"t": "a", "spec": {"dims": ["x"], "labels": [[1, 2]], "vk": "f", "base": 0}}],
                       "join": "outer", "sort": False, "axis": None}),
            ("KF-D9", {"inputs": [{"t": "a", "spec": {"dims": ["x"], "labels": [[1, 2]], "vk": "f", "base": 0}},
                                  {"t": "a", "spec": {"dims": ["x"], "labels": [[]], "vk": "f", "base": 0}}],
                       "join": "outer", "sort": False, "axis": None})]


def enumerate_cases(tier):
    """the separate empty-axis generator (deterministic grid): every position of one empty axis among 2-3 inputs"""
    for join in ("outer", "inner"):
        for sort in (False, True):
            for labs in ([[], [1, 2]], [[1, 2], []], [[], []], [[3, 1], [], [1]], [[], [2], [2, 5]]):
                yield "empty-axis-grid", {"inputs": [{"t": "a", "spec": {"dims": ["x"], "labels": [l], "vk": "f", "base": 3 * i}} for i, l in enumerate(labs)],
                                          "join": join, "sort": sort, "axis": None}
                yield "empty-axis-grid", {"inputs": [{"t": "a", "spec": {"dims": ["y", "x"], "labels": [[7, 8], l], "vk": "f", "base": 3 * i}} for i, l in enumerate(labs)],
                                          "join": join, "sort": sort, "axis": "x"}


    # ordering of the union: two inputs sorted in the same direction (or not), every way the first one may have come about (its history)
    # x label kind x join x sort
    hists = [{"mode": "none"}, {"mode": "warm"}, {"mode": "relabel", "init": "sorted"}, {"mode": "relabel", "init": "shuffled"}, {"mode": "transposed"},
             {"mode": "fortran"}, {"mode": "copyof"}, {"mode": "slice", "front": [[99, -99], [77]], "back": [[55], []]}]
    pairs = {"i": ([10, 20, 30], [5, 15, 25]), "f": ([0.5, 2.5, 4.5], [0.1, 2.5, 3.3]), "s": (["b", "d", "f"], ["a", "c", "e"]),
             # the same label set in both inputs (the second one stored in another order), also closely spaced floats
             "same-i": ([10, 20, 30, 40], [10, 30, 20, 40]), "same-F": ([2000.001, 2000.002, 2000.003, 2000.004], [2000.001, 2000.003, 2000.002, 2000.004]),
             "same-s": (["a", "b", "c", "d"], ["a", "c", "b", "d"])}
    for kind, (la, lb) in pairs.items():
        for direction in ("inc", "dec", "mixed"):
            a_l = la[::-1] if direction == "dec" else la
            b_l = lb[::-1] if direction in ("dec", "mixed") else lb
            for h in hists:
                if h["mode"] == "slice" and kind in ("s", "same-s"):
                    h = {"mode": "slice", "front": [["zq0", "zq1"], [77]], "back": [["zq2"], []]}
                for join in ("outer", "inner"):
                    for sort in (False, True):
                        for first in (0, 1):
                            sa = {"dims": ["x", "y"], "labels": [a_l, [1, 2]], "vk": "f", "base": 0, "hist": h}
                            sb = {"dims": ["x"], "labels": [b_l], "vk": "f", "base": 40, "hist": {"mode": "warm"}}
                            ins = [{"t": "a", "spec": sa}, {"t": "a", "spec": sb}]
                            yield "union-order-x-history-grid", {"inputs": ins if first == 0 else ins[::-1], "join": join, "sort": sort, "axis": None}

    # three or four inputs sorted in one direction, some of them with a single label (which has no direction), in every order of the inputs
    import itertools
    pools = {"i": [[9, 7, 5], [5], [3], [8, 2]], "s": [["f", "d", "c"], ["b"], ["e"], ["d", "a"]], "f": [[4.5, 2.5], [0.0], [3.5], [2.5]]}
    for kind, pool in pools.items():
        for direction in ("inc", "dec"):
            ls = [l[::-1] if direction == "inc" else l for l in pool]
            for n in (3, 4):
                for perm in itertools.permutations(range(4), n):
                    for join in ("outer", "inner"):
                        for sort in (False, True):
                            ins = [{"t": "a", "spec": {"dims": ["x"] if j % 2 else ["x", "y"], "labels": [ls[j]] if j % 2 else [ls[j], [1, 2]], "vk": "f", "base": 10 * j}} for j in perm]
                            yield "single-label-inputs-grid", {"inputs": ins, "join": join, "sort": sort, "axis": None}


# ----------------------------------------------------------------------------------------------

def _dims(inp):
    if inp["t"] == "a":
        return list(inp["spec"]["dims"])
    if inp["t"] == "ds":
        out = []
        for _, s in inp["spec"]["vars"]:
            for d in s["dims"]:
                if d not in out:
                    out.append(d)
        return out
    return []


def _labels(inp, d):
    if inp["t"] == "a":
        return inp["spec"]["labels"][inp["spec"]["dims"].index(d)]
    for _, s in inp["spec"]["vars"]:
        if d in s["dims"]:
            return s["labels"][s["dims"].index(d)]


def _sorted_dirs(labs):
    n = len(labs)
    inc = all(labs[i] < labs[i + 1] for i in range(n - 1))
    dec = all(labs[i] > labs[i + 1] for i in range(n - 1))
    return inc, dec


def run_case(case):
    da = core.env.import_dimarray()
    inputs, join, sort, axis = case["inputs"], case["join"], case["sort"], case["axis"]
    objs, snaps = [], []
    rehearse = bool(case.get("rehearse"))
    if rehearse:
        # the SAME array objects were aligned before, under other labels (same kinds, reverse order) and other values, and then relabelled
        # and overwritten in place: whatever that first alignment left on them or on their axes must not matter now
        pre = [core.build_initial(inp["spec"]) if inp["t"] == "a" else (core.build_dataset(inp["spec"]) if inp["t"] == "ds" else inp["v"]) for inp in inputs]
        for kw0 in (dict(join=join, sort=sort), dict(join="outer"), dict(join="inner", sort=True)):
            try:
                with np.errstate(all="ignore"):
                    da.align(list(pre), **kw0)
            except Exception:
                pass
        for inp, o in zip(inputs, pre):
            if inp["t"] == "a":
                core.finalise(o, inp["spec"])
    for k_, inp in enumerate(inputs):
        if rehearse:
            o = pre[k_]
            snaps.append(core.snapshot(o) if inp["t"] == "a" else (core.snapshot_dataset(o) if inp["t"] == "ds" else None))
            objs.append(o)
            continue
        if inp["t"] == "a":
            o = core.build(inp["spec"])
            snaps.append(core.snapshot(o))
        elif inp["t"] == "ds":
            o = core.build_dataset(inp["spec"])
            snaps.append(core.snapshot_dataset(o))
        else:
            o = inp["v"]
            snaps.append(None)
        objs.append(o)
    alld = []
    for inp in inputs:
        for d in _dims(inp):
            if d not in alld:
                alld.append(d)
    aligned = alld if axis is None else [axis]
    empty_axis = any(len(_labels(inp, d)) == 0 for inp in inputs for d in _dims(inp) if d in aligned)
    sig = {"empty_axis": empty_axis, "join": join}
    kw = {}
    if axis is not None:
        kw["axis"] = axis
    what = "align(%s, join=%s, sort=%s, axis=%s)" % (core.jsonable([i.get("spec", i.get("v")) for i in inputs]), join, sort, axis)
    sort_arg = sort
    if case.get("sort_as") == "numpy":
        sort_arg = np.bool_(sort)           # the option as it comes out of a comparison (a NumPy boolean), or as 0 / 1
        what += " [sort given as numpy.bool_]"
    elif case.get("sort_as") == "int":
        sort_arg = int(sort)
        what += " [sort given as 0 / 1]"
    if case.get("positional"):
        # the documented parameter order align(arrays, join, axis, sort), arguments given by position
        what += " [join, axis, sort by position]"
        res = lib(lambda: da.align(list(objs), join, axis, sort_arg), what=what, sig=sig)
    else:
        res = lib(lambda: da.align(list(objs), join=join, sort=sort_arg, **kw), what=what, sig=sig)
    check(isinstance(res, (list, tuple)) and len(res) == len(objs), "result-count", {"what": what, "got": len(res) if hasattr(res, "__len__") else None}, sig)

    # expected joined label sets per aligned dimension
    expected = {}
    cl = set(["join:" + join, "sort:%s" % sort] + (["axis:given"] if axis is not None else []))
    nontrivial = False
    for d in aligned:
        having = [inp for inp in inputs if d in _dims(inp)]
        sets = [[core.canon_label(x) for x in _labels(inp, d)] for inp in having]
        if join == "outer":
            want = set().union(*[set(s) for s in sets])
        else:
            want = set(sets[0]).intersection(*[set(s) for s in sets[1:]])
        dirs = [_sorted_dirs(s) for s in sets]
        expected[d] = (want, all(i for i, _ in dirs), all(dd for _, dd in dirs), sets)
        if len(having) == 1:
            cl.add("dim-in-one-input-only")
            nontrivial = True
        if len(having) >= 2:
            for s in sets[1:]:
                rel = gen.relation_of(sets[0], s)
                cl.add("rel:" + rel)
                if rel != "equal":
                    nontrivial = True
            raw = [_labels(inp, d) for inp in having]
            kinds = {core.label_kind(l) for l in raw if l}
            cl.add("labels:" + ("int-vs-float" if kinds == {"i", "f"} else "".join(sorted(kinds))))
            if all(len(s) >= 2 for s in sets):
                if expected[d][1]:
                    cl.add("all-sorted-inc")
                if expected[d][2]:
                    cl.add("all-sorted-dec")
                if (expected[d][1] or expected[d][2]) and len(want) >= 2 and not sort:
                    cl.add(join + ":ordered-result-len>=2")
        if sort and any(not i for i, _ in dirs):
            cl.add("sort-on-unsorted")
            nontrivial = True

    def check_axis(got_labels, d, where):
        want, all_inc, all_dec, sets = expected[d]
        got = [core.canon_label(x) for x in got_labels]
        check(len(got) == len(set(got)), "duplicate-labels", {"what": what, "dim": d, "where": where, "got": core.jsonable(got)}, sig)
        check(set(got) == want, "label-set", {"what": what, "dim": d, "where": where, "got": core.jsonable(got), "expected_set": core.jsonable(sorted(want, key=str))}, sig)
        inc, dec = _sorted_dirs(got)
        if sort:
            check(inc, "not-ascending-with-sort", {"what": what, "dim": d, "where": where, "got": core.jsonable(got)}, sig)
        elif all_inc or all_dec:
            ok = (all_inc and inc) or (all_dec and dec)
            check(ok, "order-not-kept", {"what": what, "dim": d, "where": where, "got": core.jsonable(got), "inputs": core.jsonable(sets)}, sig)
        return got

    first = {}

    def check_array(out, spec, where):
        check(isinstance(out, da.DimArray), "not-a-dimarray", {"what": what, "where": where, "got": core.brief(out)}, sig)
        check(list(out.dims) == list(spec["dims"]), "dims", {"what": what, "where": where, "got": list(out.dims), "expected": spec["dims"]}, sig)
        m_in = core.model_of_spec(spec)
        for i, d in enumerate(spec["dims"]):
            if d in aligned:
                got = check_axis(out.axes[i].values.tolist(), d, where)
                if d in first:
                    check(got == first[d], "axes-differ-between-outputs", {"what": what, "dim": d, "where": where, "got": core.jsonable(got), "other": core.jsonable(first[d])}, sig)
                else:
                    first[d] = got
            else:
                check(core.same_labels(out.axes[i].values, spec["labels"][i]), "untouched-dimension-changed",
                      {"what": what, "dim": d, "where": where, "got": core.jsonable(out.axes[i].values), "expected": spec["labels"][i]}, sig)
        m_out = core.model_of(out)
        check(out.values.shape == tuple(len(l) for l in m_out.labels), "shape", {"what": what, "where": where}, sig)
        for coord in m_out.coords():
            got = m_out.cells[coord]
            exp = m_in.cells.get(coord, float("nan"))
            if not core.same_scalar(got, exp):
                raise Violation("value", {"what": what, "where": where, "coord": core.jsonable(coord), "got": core.jsonable(got), "expected": core.jsonable(exp)}, sig=sig)
        # "needs no fill": an array that already holds every label of the result keeps the type of its data (integers are not turned into floats)
        if all(coord in m_in.cells for coord in m_out.coords()):
            src_dtype = core.spec_values(spec).dtype
            check(out.values.dtype == src_dtype, "dtype-changed-without-fill", {"what": what, "where": where, "got": str(out.values.dtype), "source": str(src_dtype)}, sig)
            cl.add("no-fill:dtype-kept:" + src_dtype.kind)

    for k, (inp, out) in enumerate(zip(inputs, res)):
        where = "output %d" % k
        if inp["t"] == "a":
            check_array(out, inp["spec"], where)
            core.expect_unchanged(objs[k], snaps[k], what + " [input %d]" % k, sig)
        elif inp["t"] == "ds":
            cl.add("input:dataset")
            check(isinstance(out, da.Dataset), "not-a-dataset", {"what": what, "where": where}, sig)
            check(list(out.keys()) == [n for n, _ in inp["spec"]["vars"]], "dataset-keys", {"what": what, "where": where, "got": list(out.keys())}, sig)
            for name, vs in inp["spec"]["vars"]:
                check_array(out[name], vs, where + " var " + name)
            core.check_shared_axes(out, what + " " + where, sig)
            check(core.snapshot_dataset(objs[k]) == snaps[k], "operand-modified", {"what": what + " [input dataset %d]" % k}, sig)
        else:
            cl.add("input:scalar")
            check(isinstance(out, da.DimArray) and out.ndim == 0 and core.same_scalar(out.values.item(), inp["v"]), "scalar-input", {"what": what, "got": core.brief(out)}, sig)
    if empty_axis:
        cl.add("empty-axis")
    if case.get("positional"):
        cl.add("call:positional" + ("+axis" if axis is not None else ""))
    if rehearse:
        cl.add("inputs:aligned-before-under-other-labels")
    return {"classes": sorted(cl), "nontrivial": nontrivial}
