"""C03 - Assignment writes exactly the addressed cells.

Statement: "Assigning through any label or position index (a[idx] = v, put, boolean masks, .ix[idx] = v)
changes exactly the cells that the same index would read, sets them to the (broadcast) assigned values
and leaves every other cell, all labels, dimension names and metadata untouched, so that reading back
the same index returns what was written.  With inplace=False the original array is left unchanged and
the modified copy is returned.  With cast=True the array's dtype is widened as needed (int to float,
anything to object) so that no assigned value is truncated or lost."

Oracle: expected = values.copy(); expected[np.ix_(model positions)] = broadcast(v), positions resolved on
Python lists (vlib/indexmodel.py).  Everything else is compared with a snapshot.
"""
import itertools

import numpy as np
from hypothesis import strategies as st

from vlib import core, gen, indexmodel as im
from vlib.core import lib, check, Violation
from props import c01_label_indexing as c01

ID = "C03"
TITLE = "Assignment writes exactly the addressed cells"
RULE = ("generated: arrays 0-4 dims (sizes 0-4, float/int/bool/str values, any label kind/order) x label index (scalar, list without "
        "repeats for array right-hand sides, mask, label slice, absent label) and position index x right-hand side (python scalar, 0-d, "
        "array of the selection's shape, array broadcastable to it) x every spelling (a[t]=, put(t), put(inplace=False), put(i, axis=), "
        "put({dim: i}), .loc, .ix, .iloc, indexing='position'), full N-d boolean masks (ndarray and DimArray), a.values = v; cast table "
        "enumerated: array kind {bool,int,float,str} x assigned {True, 7, 2.5, nan, 'abc'} x index form {cell, list, mask, N-d mask, "
        "values=} x shape {1-d, 2-d} with cast=True (cast=False for same-kind and int->float).  Non-trivial: at least one and not all "
        "cells addressed, or a kind-changing cast.")
ASSUMPTIONS = [
    "oracle: np.ix_ assignment on a copy of the values at positions found by list lookup",
    "lists with repeated labels are only combined with scalar right-hand sides (NumPy leaves the winner unspecified otherwise)",
    "cast=False is exercised only where NumPy assignment is loss-free (same kind, int into float)",
]
MANDATORY = ["rhs:python-list", "rhs:numbers-and-strings", "idx:slice-bounding-box", "idx:slice-bounding-box-on-one-label", "rhs:scalar", "rhs:full", "rhs:bcast", "spelling:put-copy", "idx:mask", "idx:list", "idx:slice", "idx:scalar",
             "nd-mask", "cast:kind-changing", "partial-write", "absent->IndexError", "position"]


def budget(tier):
    return {"quick": dict(examples=2500, shards=1), "thorough": dict(examples=12000, shards=16)}[tier]


RHS_BASE = {"f": 1000.25, "i": 1000, "b": None, "s": None}


def rhs_values(rk, n, base):
    if rk == "f":
        return np.arange(n, dtype=float) + 1000.25 + base
    if rk == "i":
        return np.arange(n, dtype=int) + 1000 + base
    if rk == "b":
        return (np.arange(n) + base) % 2 == 0
    if rk == "m":       # numbers and strings side by side (an object array, or a plain Python list of them)
        out = np.empty(n, dtype=object)
        for k in range(n):
            out[k] = ("w%03d" % (base + k)) if k % 2 else (1000.25 + base + k if k % 4 else 1000 + base + k)
        return out
    return np.array(["w%03d" % (base + k) for k in range(n)], dtype=object)


@st.composite
def assign_desc(draw, labs, array_rhs):
    n = len(labs)
    kind = core.label_kind(labs) if labs else "i"
    choices = ["full", "list", "mask", "slice"] + (["scalar", "scalar"] if n else [])
    k = draw(st.sampled_from(choices))
    if k == "full":
        return {"k": "full"}
    if k == "scalar":
        return {"k": "scalar", "v": draw(st.sampled_from(labs)), "np": draw(st.booleans())}
    if k == "list":
        if not n:
            return {"k": "list", "v": [], "as": "list"}
        if array_rhs:
            v = list(draw(st.permutations(labs)))[:draw(st.integers(0, n))]
        else:
            v = draw(st.lists(st.sampled_from(labs), min_size=0, max_size=4))
        return {"k": "list", "v": v, "as": draw(st.sampled_from(["list", "array"]))}
    if k == "mask":
        return {"k": "mask", "v": draw(st.lists(st.booleans(), min_size=n, max_size=n)), "as": draw(st.sampled_from(["array", "array", "list"]))}
    # label slice with bounds on the labels (unambiguous), any step
    if not n:
        return {"k": "full"}
    b0 = draw(st.sampled_from([None] + list(labs)))
    b1 = draw(st.sampled_from([None] + list(labs)))
    step = draw(st.sampled_from([None, None, 1, 2, -1]))
    if kind in "if" and any(im.monotonic(list(labs))) and draw(st.integers(0, 2)) == 0:
        # a sorted numeric axis (also one of length 1): bounds that are not labels delimit a bounding box
        b0, b1 = [b if b is None or draw(st.booleans()) else gen.absent_label(labs, kind, draw(st.sampled_from(["below", "between", "above"]))) for b in (b0, b1)]
        if b0 is not None and b1 is not None and draw(st.booleans()):
            b0, b1 = (min(b0, b1), max(b0, b1)) if (im.monotonic(list(labs))[0] != (step is not None and step < 0)) else (max(b0, b1), min(b0, b1))
        return {"k": "slice", "v": [b0, b1, step], "box": True}
    return {"k": "slice", "v": [b0, b1, step]}


@st.composite
def assign_case(draw):
    spec = draw(gen.array_spec(min_dims=0, max_dims=4, min_size=0, max_size=4, vks="ffiibs"))
    shape_kind = draw(st.sampled_from(["scalar", "scalar", "0d", "full", "full", "bcast"]))
    array_rhs = shape_kind in ("full", "bcast")
    lidx = [draw(assign_desc(l, array_rhs)) for l in spec["labels"]]
    # at most one ambiguous slice is replaced by full below (in run_case); absent label sometimes
    if spec["dims"] and draw(st.integers(0, 9)) == 0:
        i = draw(st.integers(0, len(spec["dims"]) - 1))
        labs = spec["labels"][i]
        kind = core.label_kind(labs) if labs else "i"
        lidx[i] = {"k": "scalar", "v": gen.absent_label(labs, kind, draw(st.sampled_from(["below", "between", "above"]))), "absent": True}
    pidx = []
    for l in spec["labels"]:
        d = draw(c01.pos_desc(len(l)))
        if array_rhs and d["k"] == "plist":
            n = len(l)
            d = {"k": "plist", "v": list(draw(st.permutations(list(range(n)))))[:draw(st.integers(0, n))], "as": d["as"]}
        pidx.append(d)
    vk = spec["vk"]
    cast = draw(st.sampled_from([False, False, True]))
    rk = vk
    if cast:
        rk = draw(st.sampled_from(["f", "i", "b", "s", "m"]))
    elif vk == "s" and draw(st.integers(0, 2)) == 0:
        rk = "m"
    elif vk == "f" and draw(st.booleans()):
        rk = "i"
    if shape_kind == "0d" and (vk == "s" or rk != vk):
        shape_kind = "scalar"   # a 0-d ndarray stored into an object array stays a 0-d ndarray (NumPy), not a scalar
    return {"mode": "assign", "spec": spec, "lidx": lidx, "pidx": pidx, "rhs": {"rk": rk, "shape": shape_kind, "base": draw(st.integers(0, 9)),
            "bdim": draw(st.integers(0, 3)), "as": draw(st.sampled_from(["ndarray", "ndarray", "list"]))}, "cast": cast}


@st.composite
def ndmask_case(draw):
    spec = draw(gen.array_spec(min_dims=2, max_dims=3, min_size=1, max_size=3, vks="ffiibs"))
    n = int(np.prod([len(l) for l in spec["labels"]]))
    mask = draw(st.lists(st.booleans(), min_size=n, max_size=n))
    vk = spec["vk"]
    cast = draw(st.booleans())
    rk = draw(st.sampled_from(["f", "i", "b", "s"])) if cast else vk
    return {"mode": "ndmask", "spec": spec, "mask": mask, "as": draw(st.sampled_from(["ndarray", "dimarray"])),
            "rhs": {"rk": rk, "shape": draw(st.sampled_from(["scalar", "full"])), "base": draw(st.integers(0, 9))}, "cast": cast}


def strategy(tier):
    return st.one_of(assign_case(), assign_case(), assign_case(), ndmask_case())


# ----------------------------------------------------------------------------------------------
# cast table (enumerated)
# ----------------------------------------------------------------------------------------------

ASSIGNED = [("b", True), ("i", 7), ("f", 2.5), ("f", "NaN"), ("s", "abc")]


def enumerate_cases(tier):
    # one boolean mask per dimension on square arrays (together they have the array's own shape, yet they are per-axis masks, not a full N-d mask)
    for n in (2, 3):
        labs = [10 * (k + 1) for k in range(n)][::-1]
        for m0 in itertools.product([False, True], repeat=n):
            for m1 in itertools.product([False, True], repeat=n):
                if n == 3 and (sum(m0) + sum(m1)) % 2:
                    continue        # (half of the 3 x 3 grid: 32 mask pairs)
                for as_ in ("list", "array"):
                    yield "per-axis-masks-on-square-arrays", {"mode": "assign", "spec": {"dims": ["x", "y"], "labels": [labs, labs[::-1]], "vk": "f", "base": 0},
                                                              "lidx": [{"k": "mask", "v": list(m0), "as": as_}, {"k": "mask", "v": list(m1), "as": as_}],
                                                              "pidx": [{"k": "pmask", "v": list(m0)}, {"k": "pmask", "v": list(m1)}],
                                                              "rhs": {"rk": "f", "shape": "scalar", "base": 1, "bdim": 0}, "cast": False}
    # label slices on short sorted numeric axes (a single label has no direction): bounds on / below / between / above the labels
    k = 0
    for labs in ([2000], [0], [0.5], [10, 20], [20, 10], [1, 2, 3]):
        srt = sorted(labs)
        cands = [None] + list(labs) + [srt[0] - 1, srt[-1] + 1] + [(a + b) / 2.0 for a, b in zip(srt, srt[1:])]
        for b0 in cands:
            for b1 in cands:
                for step in (None, -1):
                    k += 1
                    first = k % 2 == 0
                    other = [7, 5, 6]
                    yield "label-slices-on-short-sorted-axes", {"mode": "assign", "spec": {"dims": ["x", "y"], "labels": [labs, other] if first else [other, labs], "vk": "f", "base": 0},
                                                                "lidx": [{"k": "slice", "v": [b0, b1, step], "box": True}, {"k": "full"}][::1 if first else -1],
                                                                "pidx": [{"k": "full"}, {"k": "full"}], "rhs": {"rk": "f", "shape": "scalar", "base": 1, "bdim": 0}, "cast": False}
    # numbers and strings side by side on the right-hand side (ndarray of objects, and the same values as a plain Python list)
    for vk, cast in (("s", False), ("s", True), ("f", True), ("i", True)):
        for dims, labels in ((["x"], [[10, 20, 30]]), (["x", "y"], [["a", "b"], [10, 20, 30]])):
            for sel in ("full", "list"):
                for as_ in ("ndarray", "list"):
                    for shape in ("full", "bcast"):
                        lidx = [{"k": "full"} for _ in dims]
                        if sel == "list":
                            lidx[-1] = {"k": "list", "v": [30, 10], "as": "list"}
                        yield "mixed-right-hand-sides", {"mode": "assign", "spec": {"dims": dims, "labels": labels, "vk": vk, "base": 0}, "lidx": lidx,
                                                         "pidx": [{"k": "full"} for _ in dims], "rhs": {"rk": "m", "shape": shape, "base": 0, "bdim": 0, "as": as_}, "cast": cast}
    for vk in "bifs":
        for rk, val in ASSIGNED:
            for form in ("cell", "list", "mask", "ndmask", "values"):
                for shape in ((3,), (2, 3)):
                    for cast in (True, False):
                        if not cast and not (rk == vk or (vk == "f" and rk == "i")):
                            continue
                        if form == "values" and not cast:
                            continue
                        yield "cast-table", {"mode": "cast", "vk": vk, "rk": rk, "val": val, "form": form, "shape": list(shape), "cast": cast}
            # a.values = v on a 0-d array (the setter always casts)
            yield "cast-table", {"mode": "cast", "vk": vk, "rk": rk, "val": val, "form": "values", "shape": [], "cast": True}


# ----------------------------------------------------------------------------------------------
# running
# ----------------------------------------------------------------------------------------------

def _resolve(dims, labels, descs):
    """positions per dim; ambiguous slices are not used for assignment (replaced by full)"""
    per = []
    descs = list(descs)
    for i, (labs, d) in enumerate(zip(labels, descs)):
        kind, p = im.positions(labs, d)
        if kind == "alts":
            descs[i] = {"k": "full"}
            kind, p = "list", list(range(len(labs)))
        per.append((kind, p))
    return descs, per


def _expected_after(vals, per, rhs, cast):
    """model of the assignment: returns (expected ndarray (object dtype), written mask)"""
    exp = np.asarray(vals, dtype=object).copy()
    sel = [[p] if kind == "scalar" else list(p) for kind, p in per]
    kept_shape = tuple(len(p) for (kind, p) in per if kind != "scalar")
    full_shape = tuple(len(s) for s in sel)
    r = np.broadcast_to(np.asarray(rhs, dtype=object), kept_shape).reshape(full_shape)
    written = np.zeros(vals.shape, dtype=bool)
    if all(len(s) > 0 for s in sel):
        ix = np.ix_(*[np.array(s, dtype=int) for s in sel]) if sel else ()
        exp[ix] = r
        written[ix] = True
    return exp, written


def _make_rhs(rhs, kept_shape):
    rk, shape, base = rhs["rk"], rhs["shape"], rhs["base"]
    if shape == "scalar":
        v = rhs_values(rk, 1, base)[0]
        return v.item() if hasattr(v, "item") else v
    if shape == "0d":
        v = rhs_values(rk, 1, base)
        return v.reshape(())
    if not kept_shape:   # every dimension scalar-indexed: a plain scalar (see the note on 0-d arrays in assign_case)
        v = rhs_values(rk, 1, base)[0]
        return v.item() if hasattr(v, "item") else v
    n = int(np.prod(kept_shape)) if kept_shape else 1
    if shape == "full" or not kept_shape:
        return rhs_values(rk, n, base).reshape(kept_shape)
    # broadcastable: drop leading dims or make one dim a singleton
    bd = rhs.get("bdim", 0) % len(kept_shape)
    if bd == 0 and len(kept_shape) > 1:
        sh = kept_shape[1:]
    else:
        sh = tuple(1 if i == bd else s for i, s in enumerate(kept_shape))
    n = int(np.prod(sh)) if sh else 1
    return rhs_values(rk, n, base).reshape(sh)


def _same_cells(got, exp, what, sig, cast=False):
    g = np.asarray(got, dtype=object)
    check(g.shape == exp.shape, "shape-after-assignment", {"what": what, "got": list(g.shape), "expected": list(exp.shape)}, sig)
    for idx in itertools.product(*[range(s) for s in exp.shape]):
        x, y = g[idx], exp[idx]
        ok = core.same_scalar(x, y)
        if ok and isinstance(y, str):
            ok = isinstance(x, str)
        if ok and cast:
            # cast=True promises that no assigned value is lost: True written into an int array must read back as True, not 1
            # (the library's widening table sends bool-into-number and number-into-bool to object for that reason)
            ok = isinstance(core.pyscalar(x), bool) == isinstance(core.pyscalar(y), bool)
        if not ok:
            raise Violation("cell-after-assignment", {"what": what, "cell": list(idx), "got": core.jsonable(x), "expected": core.jsonable(y),
                                                      "all": core.jsonable(g)}, sig=sig)


def _check_rest(a, snap, what, sig, values_too=False):
    now = core.snapshot(a)
    keys = ["dims", "labels", "axattrs", "attrs", "shape"] + (["values", "dtype"] if values_too else [])
    bad = [k for k in keys if now[k] != snap[k]]
    check(not bad, "assignment-touched-other-state", {"what": what, "changed": bad}, sig)


ATTRS = {"units": "m", "history": [1, 2]}


def run_assign(case):
    spec, cast = case["spec"], case["cast"]
    dims, labels = spec["dims"], spec["labels"]
    vals = core.spec_values(spec)
    cl = set()
    for mode in ("label", "position"):
        descs0 = case["lidx"] if mode == "label" else case["pidx"]
        sig = {"mode": mode, "cast": cast}
        try:
            descs, per = _resolve(dims, labels, descs0)
            exc = None
        except im.Expected as e:
            descs, per, exc = list(descs0), None, e
        idx = tuple(im.index_object(d) for d in descs)
        nonfull = [i for i, d in enumerate(descs) if d["k"] != "full"]
        dd = {dims[i]: idx[i] for i in nonfull}
        if exc is None:
            kept_shape = tuple(len(p) for kind, p in per if kind != "scalar")
            rhs = _make_rhs(case["rhs"], kept_shape)
            exp, written = _expected_after(vals, per, rhs, cast)
            if case["rhs"].get("as") == "list" and isinstance(rhs, np.ndarray) and rhs.ndim >= 1 and rhs.size:      # (an empty nested list cannot carry a shape)
                rhs = rhs.tolist()          # the same values handed over as (nested) Python lists
                cl.add("rhs:python-list")
            if case["rhs"]["rk"] == "m":
                cl.add("rhs:numbers-and-strings")
        else:
            rhs = _make_rhs(dict(case["rhs"], shape="scalar"), ())
        kw = {"cast": True} if cast else {}
        dd_arg = dict(dd)       # ONE mapping object handed to every dict spelling: an index argument is not consumed by the call
        if mode == "label":
            S = [("a[t]=v", lambda a: a.__setitem__(idx, rhs) if not cast else a.put(idx, rhs, cast=True), False),
                 ("put(t, v)", lambda a: a.put(idx, rhs, **kw), False),
                 ("put(t, v, inplace=False)", lambda a: a.put(idx, rhs, inplace=False, **kw), True),
                 # the full documented parameter order put(indices, values, axis, indexing, tol, broadcast, cast, inplace), all given by position
                 ("put(t, v, 0, None, None, None, cast, False)", lambda a: a.put(idx, rhs, 0, None, None, None, bool(cast), False), True),
                 ("put({dim: i}, v)", lambda a: a.put(dd_arg, rhs, **kw), False),
                 ("a[{dim: i}]=v", lambda a: a.__setitem__(dd_arg, rhs) if not cast else a.put(dd_arg, rhs, cast=True), False),
                 ("put({dim: i}, v, inplace=False)", lambda a: a.put(dd_arg, rhs, inplace=False, **kw), True),
                 ("loc[t]=v", lambda a: a.loc.__setitem__(idx, rhs) if not cast else a.put(idx, rhs, indexing="label", cast=True), False)]
            if len(nonfull) == 1:
                i = nonfull[0]
                S.append(("put(i, v, axis=name)", lambda a: a.put(idx[i], rhs, axis=dims[i], **kw), False))
                if i != 0:
                    S.append(("put(i, v, axis=pos)", lambda a: a.put(idx[i], rhs, axis=i, **kw), False))
                S.append(("put(i, v, axis=negative pos)", lambda a: a.put(idx[i], rhs, axis=i - len(dims), **kw), False))
                S.append(("put({negative pos: i}, v)", lambda a: a.put({i - len(dims): idx[i]}, rhs, **kw), False))
            if exc is None and len(dims) >= 1 and all(dsc["k"] in ("list", "full") for dsc in descs) and all(len(l) for l in labels) and not isinstance(rhs, (np.ndarray, list, tuple)):
                # an Axes object as index (the axes of a template array, listed in ANOTHER order than the array's dimensions): matched by name
                da = core.env.import_dimarray()

                def tmpl_():
                    return da.Axes([da.Axis(core.label_array(dsc["v"]) if dsc["k"] == "list" and dsc["v"] else (core.label_array(labels[i_]) if dsc["k"] == "full" else core.label_array(labels[i_])[:0]), dims[i_])
                                    for i_, dsc in list(enumerate(descs))[::-1]])
                S.append(("a[Axes object, dimensions in reverse order]=v", lambda a: a.__setitem__(tmpl_(), rhs) if not cast else a.put(tmpl_(), rhs, cast=True), False))
                S.append(("put(Axes object, dimensions in reverse order, v, inplace=False)", lambda a: a.put(tmpl_(), rhs, inplace=False, **kw), True))
                cl.add("spelling:axes-object")
        else:
            S = [("ix[t]=v", lambda a: a.ix.__setitem__(idx, rhs) if not cast else a.put(idx, rhs, indexing="position", cast=True), False),
                 ("iloc[t]=v", lambda a: a.iloc.__setitem__(idx, rhs) if not cast else a.put(idx, rhs, indexing="position", cast=True), False),
                 ("put(t, v, indexing=position)", lambda a: a.put(idx, rhs, indexing="position", **kw), False),
                 ("put(t, v, indexing=position, inplace=False)", lambda a: a.put(idx, rhs, indexing="position", inplace=False, **kw), True)]
            if len(nonfull) == 1:
                i = nonfull[0]
                S.append(("put(i, v, axis=negative pos, indexing=position)", lambda a: a.put(idx[i], rhs, axis=i - len(dims), indexing="position", **kw), False))
                S.append(("ix[{negative pos: i}]=v", lambda a: a.put({i - len(dims): idx[i]}, rhs, indexing="position", **kw), False))
            S.append(("ix[{dim: i}]=v", lambda a: a.put(dd_arg, rhs, indexing="position", **kw), False))
            cl.add("position")
        for name, f, copy_ in S:
            a = core.build(spec, attrs=ATTRS)
            if a.ndim:
                a.axes[0].attrs["long_name"] = "first"
            snap = core.snapshot(a)
            what = "%s %s=%s rhs=%s cast=%s" % (name, mode, core.jsonable(descs), core.jsonable(rhs), cast)
            if exc is not None:
                core.must_raise(lambda: f(a), exc.types, what, sig=sig)
                _check_rest(a, snap, what, sig, values_too=True)
                cl.add("absent->IndexError")
                continue
            ret = lib(lambda: f(a), what=what, sig=sig)
            check(list(dd_arg.keys()) == list(dd.keys()) and all(dd_arg[k_] is dd[k_] for k_ in dd), "index-mapping-modified", {"what": what, "now": core.jsonable(list(dd_arg.keys())), "was": core.jsonable(list(dd.keys()))}, sig)
            if copy_:
                cl.add("spelling:put-copy")
                _check_rest(a, snap, what + " [original]", sig, values_too=True)
                check(hasattr(ret, "axes"), "put-copy-returned-nothing", {"what": what, "got": core.brief(ret)}, sig)
                target = ret
                check(core.snapshot(target)["attrs"] == snap["attrs"], "attrs", {"what": what}, sig)
            else:
                target = a
            _same_cells(target.values, exp, what, sig, cast=cast)
            _check_rest(target, snap, what, sig)
            # read back through the same index
            get = (lambda: target.take(idx)) if mode == "label" else (lambda: target.take(idx, indexing="position"))
            res = lib(get, what="read-back " + what, sig=sig)
            im.check_getitem(res, exp, dims, labels, descs, "read-back " + what, sig=sig)
        if exc is None:
            nw = int(written.sum())
            if 0 < nw < written.size:
                cl.add("partial-write")
            for d in descs:
                cl.add("idx:" + d["k"].lstrip("p") if d["k"] != "full" else "idx:full")
                if d.get("box"):
                    cl.add("idx:slice-bounding-box" + ("-on-one-label" if len(labels[descs.index(d)]) == 1 else ""))
    rk, vk = case["rhs"]["rk"], spec["vk"]
    cl.add("rhs:" + case["rhs"]["shape"])
    if cast and rk != vk:
        cl.add("cast:kind-changing")
    nontrivial = "partial-write" in cl or (cast and rk != vk and vals.size > 0)
    return {"classes": sorted(cl), "nontrivial": nontrivial}


def run_ndmask(case):
    spec, cast = case["spec"], case["cast"]
    da = core.env.import_dimarray()
    vals = core.spec_values(spec)
    mask = np.array(case["mask"], dtype=bool).reshape(vals.shape)
    n = int(mask.sum())
    rhs = _make_rhs(dict(case["rhs"], shape="scalar"), ()) if case["rhs"]["shape"] == "scalar" else rhs_values(case["rhs"]["rk"], n, case["rhs"]["base"])
    exp = np.asarray(vals, dtype=object).copy()
    exp[mask] = rhs
    sig = {"mode": "ndmask", "cast": cast}
    kw = {"cast": True} if cast else {}
    for name in ("a[mask]=v", "put(mask, v)", "put(mask, v, inplace=False)"):
        a = core.build(spec, attrs=ATTRS)
        snap = core.snapshot(a)
        m = mask.copy() if case["as"] == "ndarray" else da.DimArray(mask.copy(), axes=[ax.copy() for ax in a.axes])
        what = "%s mask=%s rhs=%s cast=%s as=%s" % (name, case["mask"], core.jsonable(rhs), cast, case["as"])
        if name == "a[mask]=v" and not cast:
            ret = lib(lambda: a.__setitem__(m, rhs), what=what, sig=sig)
            target = a
        elif name.endswith("inplace=False)"):
            target = lib(lambda: a.put(m, rhs, inplace=False, **kw), what=what, sig=sig)
            _check_rest(a, snap, what + " [original]", sig, values_too=True)
            check(hasattr(target, "axes"), "put-copy-returned-nothing", {"what": what}, sig)
        else:
            lib(lambda: a.put(m, rhs, **kw), what=what, sig=sig)
            target = a
        _same_cells(target.values, exp, what, sig, cast=cast)
        _check_rest(target, snap, what, sig)
    cl = ["nd-mask", "rhs:" + case["rhs"]["shape"]]
    if 0 < n < mask.size:
        cl.append("partial-write")
    if cast and case["rhs"]["rk"] != spec["vk"]:
        cl.append("cast:kind-changing")
    return {"classes": cl, "nontrivial": 0 < n < mask.size}


def run_cast(case):
    da = core.env.import_dimarray()
    vk, rk, form, shape, cast = case["vk"], case["rk"], case["form"], tuple(case["shape"]), case["cast"]
    val = float("nan") if case["val"] == "NaN" else case["val"]
    dims = ["x", "y"][:len(shape)]
    spec = {"dims": dims, "labels": [[10 * (k + 1) for k in range(n)][::-1] for n in shape], "vk": vk, "base": 3}
    vals = core.spec_values(spec)
    a = core.build(spec, attrs=ATTRS)
    snap = core.snapshot(a)
    exp = np.asarray(vals, dtype=object).copy()
    what = "cast-table vk=%s <- %r (%s) form=%s shape=%s cast=%s" % (vk, val, rk, form, shape, cast)
    sig = {"mode": "cast", "vk": vk, "rk": rk, "form": form}
    kw = {"cast": True} if cast else {}
    first = tuple(l[0] for l in spec["labels"])
    if form == "cell":
        exp[(0,) * len(shape)] = val
        lib(lambda: a.put(first, val, **kw), what=what, sig=sig)
    elif form == "list":
        exp[0:2] = val
        lib(lambda: a.put([spec["labels"][0][0], spec["labels"][0][1]], val, axis=0, **kw), what=what, sig=sig)
    elif form == "mask":
        m = np.zeros(shape[0], dtype=bool)
        m[-1] = True
        exp[-1] = val
        lib(lambda: a.put(m, val, axis=0, **kw), what=what, sig=sig)
    elif form == "ndmask":
        m = np.zeros(shape, dtype=bool)
        m.flat[1] = True
        exp.flat[1] = val
        if len(shape) == 1:
            lib(lambda: a.put(m, val, **kw), what=what, sig=sig)
        else:
            lib(lambda: a.put(da.DimArray(m, axes=[ax.copy() for ax in a.axes]), val, **kw), what=what, sig=sig)
    elif form == "values":
        new = np.empty(shape, dtype=object)
        new[...] = val
        new = new.astype({"b": bool, "i": int, "f": float, "s": object}[rk])
        exp[...] = val

        def setvalues():
            a.values = new
        lib(setvalues, what=what, sig=sig)
    _same_cells(a.values, exp, what, sig, cast=cast)
    _check_rest(a, snap, what, sig)
    return {"classes": ["cast-table"] + (["cast:kind-changing"] if rk != vk else []), "nontrivial": True}


def run_case(case):
    return {"assign": run_assign, "ndmask": run_ndmask, "cast": run_cast}[case["mode"]](case)
