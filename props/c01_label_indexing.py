"""C01 - Label indexing returns exactly the data stored at those labels.

Statement (properties.jsonl): indexing with a scalar, a list/array of labels, a boolean mask, or any
per-dimension combination (tuple or {dim: index}) "returns exactly the elements stored at those label
coordinates: every indexed dimension is sampled independently (orthogonal indexing), scalar indices
drop their dimension, list and mask indices keep it with the selected labels in the requested order,
and all other axes keep their name, labels and order.  A label that is not on the axis raises
IndexError instead of silently returning another element, unless a tolerance is given, in which case
the nearest label is used if and only if it lies within the tolerance.  Positional access (.ix, .iloc,
indexing='position') selects, dimension by dimension, exactly what the same NumPy index selects on
.values, together with the matching labels."

Oracle: label -> position by Python list lookup (vlib/indexmodel.py), np.ix_ on the oracle side only.
Every applicable spelling of one index is run, so the spellings are also compared with each other.
"""
import itertools

import numpy as np
from hypothesis import strategies as st

from vlib import core, gen, indexmodel as im
from vlib.core import lib, check, Violation

ID = "C01"
TITLE = "Label indexing returns exactly the data stored at those labels"
RULE = ("generated: arrays of 0-4 dims, sizes 0-4 (thorough 0-5), unique int/float/str labels inc/dec/shuffled, injective values; per "
        "dimension a label descriptor (full | present scalar (python / numpy) | list or ndarray of labels incl. repeated, empty, one absent "
        "(below/between/above; of the other kind: a number on a str axis, a word on a numeric axis) | boolean mask | absent scalar) and a position descriptor (int incl. negative | list | mask | slice); every "
        "applicable spelling (a[t], take(t), take({dim|pos: i}), take(i, axis=name|pos), .loc, .sel, keepdims, trailing dims omitted, "
        "Ellipsis; .ix/.iloc/isel/indexing='position'); tolerance cases (nloc, tol=) with queries label+-delta; all under indexing.by in "
        "{label, position}; optionally after an earlier read of the same array (nloc, tol=, by position).  Enumerated: all permutations of 4 int and 4 str labels x all single / pair lookups incl. absent.  Non-trivial: "
        "ndim >= 1, size > 0 and at least one dimension carries a non-full index.  distinct = distinct case description.")
ASSUMPTIONS = [
    "oracle: list lookup + np.ix_ on a plain ndarray copy of the values (vlib/indexmodel.py)",
    "present queries are of the axis' own kind (int/float interchangeable); labels unique; an absent *list* of another kind may be refused with TypeError instead of IndexError",
    "equidistant nearest labels under tol: any minimiser accepted",
]
MANDATORY = ["axis:shuf", "axis:dec", "desc:list", "desc:mask", "desc:scalar", "desc:absent-scalar", "desc:absent-in-list:below",
             "desc:absent-in-list:between", "desc:absent-in-list:above", "desc:absent-other-kind", "prior-read:nloc", "prior-read:tol", "desc:repeated", "desc:empty-list", "mixed-kinds",
             "tol:hit", "tol:miss", "tol:by-position", "by:position", "by:label", "shuffled-axis-with-list", "position:negative"]


def budget(tier):
    return {"quick": dict(examples=1500, shards=1), "thorough": dict(examples=15000, shards=16)}[tier]


# ----------------------------------------------------------------------------------------------
# generators
# ----------------------------------------------------------------------------------------------

@st.composite
def label_desc(draw, labs, allow_absent=True):
    n = len(labs)
    kind = core.label_kind(labs) if labs else draw(st.sampled_from("ifs"))
    choices = ["full", "list", "list", "mask"]
    if n:
        choices += ["scalar", "scalar", "scalar"]
    if allow_absent:
        choices += ["absent-scalar", "absent-in-list"]
    k = draw(st.sampled_from(choices))
    if k == "full":
        return {"k": "full"}
    if k == "scalar":
        v = draw(st.sampled_from(labs))
        if kind in "if" and float(v) == int(v) and draw(st.booleans()):
            v = int(v) if kind == "f" else float(v)   # int query on a float axis and vice versa
        return {"k": "scalar", "v": v, "np": draw(st.booleans())}
    if k == "list":
        v = draw(st.lists(st.sampled_from(labs), min_size=0, max_size=4)) if n else []
        if n >= 3 and draw(st.integers(0, 4)) == 0:
            # labels whose stored positions span a contiguous range first..last without being that run (interior permuted or repeated)
            m = draw(st.integers(3, min(4, n)))
            start = draw(st.integers(0, n - m))
            inner = list(range(start + 1, start + m - 1))
            inner = inner[::-1] if len(inner) > 1 and draw(st.booleans()) else [draw(st.sampled_from([start, start + m - 1] + inner)) for _ in inner]
            v = [labs[i] for i in [start] + inner + [start + m - 1]]
        return {"k": "list", "v": v, "as": draw(st.sampled_from(["list", "array"]))}
    if k == "mask":
        return {"k": "mask", "v": draw(st.lists(st.booleans(), min_size=n, max_size=n)), "as": draw(st.sampled_from(["array", "list"]))}
    where = draw(st.sampled_from(["below", "between", "above"]))
    ab = gen.absent_label(labs, kind, where)
    if kind == "i" and n and draw(st.booleans()):
        # a non-integral query on an integer axis: absent, although truncating or rounding it would hit a label
        ab = draw(st.sampled_from(labs)) + draw(st.sampled_from([0.5, -0.5, 0.25, 0.75]))
        where = "between"
    other = False
    if n and draw(st.integers(0, 3)) == 0:
        # an absent label of the other kind: a number that would be a valid position on a str axis, the text of a number on a numeric axis
        ab = draw(st.sampled_from([0, 1, n - 1, 1.0])) if kind == "s" else draw(st.sampled_from(["a", str(labs[0])]))
        other = True
    if k == "absent-scalar":
        return dict({"k": "scalar", "v": ab, "absent": where}, **({"otherkind": True, "np": draw(st.booleans())} if other else {}))
    v = draw(st.lists(st.sampled_from(labs), min_size=0, max_size=2)) if n else []
    pos = draw(st.integers(0, len(v)))
    v = v[:pos] + [ab] + v[pos:]
    if other:
        v = [ab] * draw(st.integers(1, 2))      # (lists hold one kind)
        return {"k": "list", "v": v, "as": "list", "absent": where, "otherkind": True}
    return {"k": "list", "v": v, "as": draw(st.sampled_from(["list", "array"])), "absent": where}


@st.composite
def pos_desc(draw, n):
    choices = ["full", "plist", "pmask", "pslice"] + (["pscalar", "pscalar"] if n else [])
    k = draw(st.sampled_from(choices))
    if k == "full":
        return {"k": "full"}
    if k == "pscalar":
        return {"k": "pscalar", "v": draw(st.integers(-n, n - 1)), "np": draw(st.booleans())}
    if k == "plist":
        v = draw(st.lists(st.integers(-n, n - 1), min_size=0, max_size=4)) if n else []
        if n >= 2 and draw(st.integers(0, 3)) == 0:
            # a run of consecutive positions (what an implementation may be tempted to turn into a slice), possibly counted from
            # the end or crossing zero: [-2, -1], [-1, 0, 1], [1, 2]
            start = draw(st.integers(-n, n - 2))
            v = list(range(start, min(start + draw(st.integers(2, 3)), n)))
        elif n >= 3 and draw(st.integers(0, 4)) == 0:
            # spans a contiguous range first..last without being the increasing run: interior permuted or repeated ([0, 2, 1, 3], [1, 1, 3])
            m = draw(st.integers(3, min(4, n)))
            start = draw(st.integers(0, n - m))
            inner = list(range(start + 1, start + m - 1))
            inner = list(draw(st.permutations(inner)))[::-1] if len(inner) > 1 and draw(st.booleans()) else [draw(st.sampled_from([start, start + m - 1] + inner)) for _ in inner]
            v = [start] + inner + [start + m - 1]
        return {"k": "plist", "v": v, "as": draw(st.sampled_from(["list", "array"]))}
    if k == "pmask":
        return {"k": "pmask", "v": draw(st.lists(st.booleans(), min_size=n, max_size=n))}
    return {"k": "pslice", "v": [draw(st.sampled_from([None] + list(range(-5, 6)))), draw(st.sampled_from([None] + list(range(-5, 6)))),
                                 draw(st.sampled_from([None, 1, 2, -1, -2]))]}


@st.composite
def index_case(draw, max_size=4):
    spec = draw(gen.array_spec(min_dims=0, max_dims=4, min_size=0, max_size=max_size, vks="fis"))
    n_abs = 0
    lidx = []
    for labs in spec["labels"]:
        d = draw(label_desc(labs, allow_absent=(n_abs == 0)))
        if "absent" in d:
            n_abs += 1
        lidx.append(d)
    pidx = [draw(pos_desc(len(labs))) for labs in spec["labels"]]
    return {"mode": "index", "spec": spec, "lidx": lidx, "pidx": pidx, "by": draw(st.sampled_from(["label", "label", "position"])),
            "keepdims": draw(st.sampled_from([False, False, True])), "prior": draw(st.sampled_from([None, None, None, "nloc", "tol", "ix"]))}


@st.composite
def tol_case(draw):
    spec = draw(gen.array_spec(min_dims=1, max_dims=3, min_size=1, max_size=4, kinds="iffs"))
    which = draw(st.integers(0, len(spec["dims"]) - 1))
    labs = spec["labels"][which]
    kind = core.label_kind(labs)
    tol = draw(st.sampled_from([0.25, 0.5, 1.0, 2.0, "inf"]))
    aslist = draw(st.booleans())
    qs = []
    for _ in range(draw(st.integers(1, 3)) if aslist else 1):
        base = draw(st.sampled_from(labs))
        if kind == "s":
            qs.append(draw(st.sampled_from([base, base + "_"])))
        else:
            delta = draw(st.sampled_from([0, 0.125, 0.25, 0.5, 0.75, 1.0, 1.5, 2.0, 3.0, -0.125, -0.25, -0.5, -1.0, -2.5]))
            qs.append(base + delta)
    return {"mode": "tol", "spec": spec, "dim": which, "tol": tol, "q": qs if aslist else qs[0], "by": draw(st.sampled_from(["label", "label", "position"]))}


def strategy(tier):
    ms = 5 if tier == "thorough" else 4
    return st.one_of(index_case(max_size=ms), index_case(max_size=ms), index_case(max_size=ms), tol_case())


def enumerate_cases(tier):
    for kind, base in (("i", [1, 2, 3, 5]), ("s", ["a", "b", "c", "e"]), ("f", [0.5, 1.5, 2.5, 4.5]), ("F", [2000.0, 2000.01, 2000.02, 2000.04])):
        # ("F": float labels of large magnitude and small spacing - neighbours differ by 5e-6 relative - with absent near misses)
        ab = {"i": [0, 4, 9, 2.5, 1.75], "s": ["A", "d", "zz"], "f": [0.0, 3.5, 9.0], "F": [2000.005, 2000.03, 1999.99, 2000.0101]}[kind]
        for perm in itertools.permutations(base):
            yield "1d-permutations-of-4-labels", {"mode": "sweep", "labels": list(perm), "queries": list(perm) + ab}


# ----------------------------------------------------------------------------------------------
# running
# ----------------------------------------------------------------------------------------------

def _apply(f, exc, vals, dims, labels, descs, what, sig, tol=None, keepdims=False):
    if exc is not None:
        core.must_raise(f, exc.types, what, sig=sig)
    else:
        res = lib(f, what=what, sig=sig)
        im.check_getitem(res, vals, dims, labels, descs, what, tol=tol, keepdims=keepdims, sig=sig, kinds=True)


def _expected(dims, labels, descs, tol=None):
    try:
        im.expected_getitem(dims, labels, descs, tol=tol)
        return None
    except im.Expected as e:
        return e


def _trim(idx, descs):
    """drop trailing full slices (trailing dimensions may be omitted)"""
    n = len(idx)
    while n > 0 and descs[n - 1]["k"] == "full":
        n -= 1
    return tuple(idx[:n])


def run_index(case):
    spec, lidx, pidx, by, keepdims = case["spec"], case["lidx"], case["pidx"], case["by"], case["keepdims"]
    dims, labels = spec["dims"], spec["labels"]
    nd = len(dims)
    vals = core.spec_values(spec)
    with core.options(indexing_by=by):
        a = core.build(spec)
        snap = core.snapshot(a)
        prior_tag = None
        if case.get("prior") and nd >= 1 and all(len(l) for l in labels):
            # an earlier read of the same array - nearest neighbour, with a tolerance, by position - leaves no mode behind for the next one
            k0 = next((i for i, l in enumerate(labels) if core.label_kind(l) in "if"), None)
            sigp = {"mode": "index", "prior": case["prior"]}
            if case["prior"] == "ix":
                lib(lambda: a.take(0, axis=0, indexing="position"), what="take(0, axis=0, indexing='position') (earlier read)", sig=sigp)
                prior_tag = "prior-read:ix"
            elif k0 is not None:
                q = tuple([slice(None)] * k0 + [labels[k0][0] + 0.25])
                if case["prior"] == "nloc":
                    lib(lambda: a.nloc[q], what="a.nloc[%r] (earlier read)" % (q,), sig=sigp)
                else:
                    lib(lambda: a.take(q[-1], axis=k0, tol=1.0, indexing="label"), what="take(%r, axis=%d, tol=1.0, indexing='label') (earlier read)" % (q[-1], k0), sig=sigp)
                prior_tag = "prior-read:" + case["prior"]
        lt = tuple(im.index_object(d) for d in lidx)
        pt = tuple(im.index_object(d) for d in pidx)
        if nd >= 2 and pidx[0] == pidx[1] and isinstance(pt[0], np.ndarray):
            pt = (pt[0], pt[0]) + pt[2:]          # one index array object used for two dimensions
        frozen = [(x, x.copy()) for x in lt + pt if isinstance(x, np.ndarray)]
        ldict0 = None
        lexc = _expected(dims, labels, lidx)
        if lexc is not None and any(d.get("otherkind") and d["k"] == "list" for d in lidx):
            lexc.types = (IndexError, TypeError)        # a list of another kind cannot even be compared with the labels: refused either way, never answered
        pexc = _expected(dims, labels, pidx)
        nonfull_l = [i for i, d in enumerate(lidx) if d["k"] != "full"]
        nonfull_p = [i for i, d in enumerate(pidx) if d["k"] != "full"]
        ldict = {dims[i]: lt[i] for i in nonfull_l}
        ldict0 = dict(ldict)
        pdict = {dims[i]: pt[i] for i in nonfull_p}

        # ---- label spellings
        L = []
        if by == "label":
            L.append(("a[t]", lambda: a[lt]))
            L.append(("take(t)", lambda: a.take(lt)))
            if nd:
                L.append(("a[trimmed]", lambda: a[_trim(lt, lidx)] if len(_trim(lt, lidx)) != 1 else a[_trim(lt, lidx)[0]]))
                L.append(("a[..., last]", lambda: a[(Ellipsis, lt[-1])] if all(d["k"] == "full" for d in lidx[:-1]) else a[lt]))
            L.append(("take(dict names)", lambda: a.take(ldict)))            # (the same dict object is handed to several spellings)
            L.append(("loc[dict]", lambda: a.loc[ldict]))
            L.append(("take(dict positions)", lambda: a.take({dims.index(k): v for k, v in ldict.items()})))
        else:
            L.append(("ix[t] (by=position)", lambda: a.ix[lt]))
            L.append(("take(t, indexing=label)", lambda: a.take(lt, indexing="label")))
        L.append(("loc[t]", lambda: a.loc[lt]))
        L.append(("sel(**)", lambda: a.sel(**ldict)))
        L.append(("sel(** in reversed order)", lambda: a.sel(**dict(reversed(list(ldict.items()))))))     # keywords are matched by name, whatever their order
        if len(nonfull_l) == 1 and by == "label":
            i = nonfull_l[0]
            L.append(("take(i, axis=name)", lambda: a.take(lt[i], axis=dims[i])))
            L.append(("take(i, axis=pos)", lambda: a.take(lt[i], axis=i)))
            L.append(("take(i, axis=negative pos)", lambda: a.take(lt[i], axis=i - nd)))
            L.append(("take({negative pos: i})", lambda: a.take({i - nd: lt[i]})))
        sig = {"mode": "label", "by": by}
        for name, f in L:
            _apply(f, lexc, vals, dims, labels, lidx, "%s lidx=%s" % (name, core.jsonable(lidx)), sig)
        if nd >= 1 and all(dsc["k"] in ("list", "full") for dsc in lidx) and all(len(l) for l in labels):
            # an Axes object as index (the axes of a template array, listed in ANOTHER order than the array's dimensions): matched by name
            da = core.env.import_dimarray()
            tmpl = da.Axes([da.Axis(core.label_array(dsc["v"]) if dsc["k"] == "list" and dsc["v"] else (core.label_array(labels[i_]) if dsc["k"] == "full" else core.label_array(labels[i_])[:0]), dims[i_])
                            for i_, dsc in list(enumerate(lidx))[::-1]])
            fA = (lambda: a.take(tmpl)) if by == "label" else (lambda: a.take(tmpl, indexing="label"))
            _apply(fA, lexc, vals, dims, labels, [dsc if dsc["k"] == "list" else {"k": "list", "v": list(labels[i_])} for i_, dsc in enumerate(lidx)],
                   "take(Axes object listing the dimensions in reverse order) lidx=%s" % core.jsonable(lidx), sig)
        if keepdims:
            f = (lambda: a.take(lt, keepdims=True)) if by == "label" else (lambda: a.take(lt, indexing="label", keepdims=True))
            _apply(f, lexc, vals, dims, labels, lidx, "take(keepdims) lidx=%s" % core.jsonable(lidx), sig, keepdims=True)

        # ---- position spellings
        P = []
        if by == "label":
            P.append(("ix[t]", lambda: a.ix[pt]))
        else:
            P.append(("a[t] (by=position)", lambda: a[pt]))
            P.append(("take(t) (by=position)", lambda: a.take(pt)))
        P.append(("iloc[t]", lambda: a.iloc[pt]))
        P.append(("isel(**)", lambda: a.isel(**pdict)))
        P.append(("take(t, indexing=position)", lambda: a.take(pt, indexing="position")))
        if len(nonfull_p) == 1:
            i = nonfull_p[0]
            P.append(("take(i, axis=name, position)", lambda: a.take(pt[i], axis=dims[i], indexing="position")))
            P.append(("take(i, axis=negative pos, position)", lambda: a.take(pt[i], axis=i - nd, indexing="position")))
        sig = {"mode": "position", "by": by}
        for name, f in P:
            _apply(f, pexc, vals, dims, labels, pidx, "%s pidx=%s" % (name, core.jsonable(pidx)), sig)
        if keepdims:
            # keepdims in position mode: scalar positions (negative ones included) keep their dimension, with the one label
            _apply(lambda: a.take(pt, indexing="position", keepdims=True), pexc, vals, dims, labels, pidx, "take(t, indexing=position, keepdims=True) pidx=%s" % core.jsonable(pidx), sig, keepdims=True)
            _apply(lambda: a.take(dict(pdict), indexing="position", keepdims=True), pexc, vals, dims, labels, pidx, "take({dim: i}, indexing=position, keepdims=True) pidx=%s" % core.jsonable(pidx), sig, keepdims=True)
    # the array remembers the mode it was created under; `.ix` is the toggle of the array's own mode, also when the global option has
    # been changed in between
    other = "position" if by == "label" else "label"
    with core.options(indexing_by=other):
        sigx = {"mode": "cross-option", "by": by}
        if by == "label":
            _apply(lambda: a[lt], lexc, vals, dims, labels, lidx, "a[t] on an array created under by=label, option now position lidx=%s" % core.jsonable(lidx), sigx)
            _apply(lambda: a.ix[pt], pexc, vals, dims, labels, pidx, "a.ix[t] on an array created under by=label, option now position pidx=%s" % core.jsonable(pidx), sigx)
        else:
            _apply(lambda: a[pt], pexc, vals, dims, labels, pidx, "a[t] on an array created under by=position, option now label pidx=%s" % core.jsonable(pidx), sigx)
            _apply(lambda: a.ix[lt], lexc, vals, dims, labels, lidx, "a.ix[t] on an array created under by=position, option now label lidx=%s" % core.jsonable(lidx), sigx)
    with core.options(indexing_by=by):
        core.expect_unchanged(a, snap, "indexing", sig={"mode": "operand"})
        check(ldict0 is None or (list(ldict.keys()) == list(ldict0.keys()) and all(ldict[k_] is ldict0[k_] for k_ in ldict0)), "index-argument-modified",
              {"what": "the {dim: index} mapping handed to take / loc", "before": sorted(map(str, ldict0 or {})), "after": sorted(map(str, ldict))}, {"mode": "operand"})
        for x, x0 in frozen:          # index arrays handed to the library are arguments of a non-in-place operation
            check(x.dtype == x0.dtype and np.array_equal(x, x0), "index-argument-modified", {"what": "lidx=%s pidx=%s" % (core.jsonable(lidx), core.jsonable(pidx)),
                                                                                             "before": core.jsonable(x0), "after": core.jsonable(x)}, {"mode": "operand"})

    cl = ["by:" + by] + ([prior_tag] if prior_tag else [])
    for labs, d in zip(labels, lidx):
        o = gen.order_of(labs)
        cl.append("axis:" + o)
        if d["k"] == "list":
            cl.append("desc:list")
            if o == "shuf":
                cl.append("shuffled-axis-with-list")
            if len(d["v"]) != len(set(map(str, d["v"]))):
                cl.append("desc:repeated")
            if not d["v"]:
                cl.append("desc:empty-list")
            if "absent" in d:
                cl.append("desc:absent-in-list:" + d["absent"])
            if d.get("otherkind"):
                cl.append("desc:absent-other-kind")
        elif d["k"] == "scalar":
            cl.append("desc:absent-scalar" if "absent" in d else "desc:scalar")
            if d.get("otherkind"):
                cl.append("desc:absent-other-kind")
        elif d["k"] == "mask":
            cl.append("desc:mask")
        if labs:
            cl.append("labels:" + core.label_kind(labs))
    if len({d["k"] for d in lidx if d["k"] != "full"}) >= 2:
        cl.append("mixed-kinds")
    if any(d["k"] in ("pscalar", "plist") and any(x < 0 for x in ([d["v"]] if d["k"] == "pscalar" else d["v"])) for d in pidx):
        cl.append("position:negative")
    if lexc is not None:
        cl.append("expected-IndexError")
    nontrivial = nd >= 1 and all(len(l) > 0 for l in labels) and (bool(nonfull_l) or bool(nonfull_p))
    return {"classes": sorted(set(cl)), "nontrivial": nontrivial}


def run_tol(case):
    spec, which, tol, q = case["spec"], case["dim"], case["tol"], case["q"]
    tolv = float("inf") if tol == "inf" else tol
    dims, labels = spec["dims"], spec["labels"]
    vals = core.spec_values(spec)
    by = case.get("by", "label")
    with core.options(indexing_by=by):
        return _run_tol(case, spec, which, tol, q, tolv, dims, labels, vals, by)


def _run_tol(case, spec, which, tol, q, tolv, dims, labels, vals, by):
    a = core.build(spec)
    d = dims[which]
    descs = [{"k": "full"}] * len(dims)
    descs = list(descs)
    descs[which] = {"k": "list", "v": q} if isinstance(q, list) else {"k": "scalar", "v": q}
    numeric = core.label_kind(labels[which]) in "if"
    eff_tol = tolv if numeric else None   # "tol" is ignored on non-numeric axes: exact lookup
    exc = _expected(dims, labels, descs, tol=eff_tol)
    idx = tuple(im.index_object(x) for x in descs)
    if by == "label":
        S = [("take(t, tol=)", lambda: a.take(idx, tol=tolv)),
             ("take(i, axis=, tol=)", lambda: a.take(idx[which], axis=d, tol=tolv)),
             ("take({dim: i}, tol=)", lambda: a.take({d: idx[which]}, tol=tolv))]
    else:   # the explicitly label-based spellings stay label-based whatever the indexing.by option says
        S = [("take(t, tol=, indexing=label) (by=position)", lambda: a.take(idx, tol=tolv, indexing="label")),
             ("take(i, axis=, tol=, indexing=label) (by=position)", lambda: a.take(idx[which], axis=d, tol=tolv, indexing="label"))]
    if tol == "inf":
        S.append(("nloc[t]" + ("" if by == "label" else " (by=position)"), lambda: a.nloc[idx]))
    sig = {"mode": "tol", "by": by}
    for name, f in S:
        _apply(f, exc, vals, dims, labels, descs, "%s q=%r tol=%r labels=%r" % (name, q, tol, labels[which]), sig, tol=eff_tol)
    if numeric and tol != "inf":
        # the axis carries a (wider or narrower) default tolerance of its own: the tolerance GIVEN in the call is the one that decides
        for own in (tolv * 4, tolv / 4.0):
            b = core.build(spec)
            b.axes[which].tol = own
            for name, f in ((("take(t, tol=) on an axis with its own tol", lambda: b.take(idx, tol=tolv)), ("take({dim: i}, tol=) on an axis with its own tol", lambda: b.take({d: idx[which]}, tol=tolv)))
                            if by == "label" else (("take(t, tol=, indexing=label) on an axis with its own tol", lambda: b.take(idx, tol=tolv, indexing="label")),)):
                _apply(f, exc, vals, dims, labels, descs, "%s=%r q=%r tol=%r labels=%r" % (name, own, q, tol, labels[which]), sig, tol=eff_tol)
    cl = ["tol:miss" if exc is not None else "tol:hit", "tol:" + ("numeric" if numeric else "str-axis"), "tol:by-" + by]
    if numeric and exc is None:
        qs = q if isinstance(q, list) else [q]
        for x in qs:
            dist = sorted(abs(l - x) for l in labels[which])
            if len(dist) > 1 and dist[0] == dist[1]:
                cl.append("tol:tie")
            if dist[0] == tolv:
                cl.append("tol:exactly-at-tolerance")
    return {"classes": cl, "nontrivial": True}


def run_sweep(case):
    labels, queries = case["labels"], case["queries"]
    da = core.env.import_dimarray()
    lab = core.label_array(labels)
    vals = np.arange(len(labels), dtype=float) + 0.5
    a = da.DimArray(vals, axes=[da.Axis(lab, "x0")])
    sub = []
    plan = [(q,) for q in queries] + [(q1, q2) for q1 in queries for q2 in queries]
    if "only" in case:
        plan = [tuple(case["only"])]
    for qs in plan:
        mini = dict(case, only=list(qs))
        try:
            if len(qs) == 1:
                desc = {"k": "scalar", "v": qs[0]}
                fs = [("a[q]", lambda: a[qs[0]]), ("loc", lambda: a.loc[qs[0]]), ("take axis", lambda: a.take(qs[0], axis=0))]
            else:
                desc = {"k": "list", "v": list(qs)}
                arr = np.array(list(qs), dtype=object) if isinstance(qs[0], str) else np.array(list(qs))
                fs = [("a[list]", lambda: a[list(qs)]), ("a[array]", lambda: a[arr]), ("take axis", lambda: a.take(list(qs), axis="x0"))]
            exc = _expected(["x0"], [labels], [desc])
            for name, f in fs:
                _apply(f, exc, vals, ["x0"], [labels], [desc], "%s labels=%r q=%r" % (name, labels, qs), {"mode": "sweep"})
                sub.append((core.digest([labels, qs, name]), True))
        except Violation as v:
            v.case = mini
            raise
    return {"classes": ["sweep"], "sub": sub}


def run_case(case):
    if case["mode"] == "index":
        return run_index(case)
    if case["mode"] == "tol":
        return run_tol(case)
    return run_sweep(case)
