"""C17 - Axis-wise selection and missing-value handling keep slices with their labels.

Statement: "sort_axis returns the same labelled data with the chosen axis in ascending label order (or ascending
key order), take_axis and compress select whole slices by label, position or mask, and dropna(axis) keeps, in
their original order, exactly those labels whose slice contains no NaN (or at least minvalid valid values), each
slice always moving together with its label and all other axes left alone.  fillna replaces exactly the NaN cells
with the given value, and setna sets to NaN exactly the cells equal to the given value(s) or selected by the
given mask, promoting integer data to float rather than failing."

Oracle: positions chosen on Python lists (sorted(), list lookup, counting), expected array = np.take on an object
copy of the values at those positions; cell sets for fillna / setna computed cell by cell.
"""
import itertools

import numpy as np
from hypothesis import strategies as st

from vlib import core, gen
from vlib.core import lib, check, Violation

ID = "C17"
TITLE = "Axis-wise selection and missing-value handling keep slices with their labels"
RULE = ("generated arrays of 1-4 dims with unsorted int/float/str labels, every axis (by name / position): sort_axis (default, key function, "
        "dict key), take_axis (labels / positions, repeats), compress_axis (mask), compress / a[mask] with N-d masks, dropna(axis, minvalid) "
        "over NaN patterns {none, sparse, whole slices, all} with the whole minvalid grid 0..slice size enumerated per array (default for "
        "1-d), fillna(value, inplace) and setna(value | list | mask ndarray / DimArray, inplace) on float and int data.  Non-trivial: "
        "ndim >= 2 with the operated axis not first, or a NaN pattern that drops some but not all labels, or an unsorted axis.")
ASSUMPTIONS = [
    "oracle: positions from sorted()/list lookup/counting, expected = np.take on an object copy; moved values compared exactly",
    "setna lists are non-empty; dict keys cover every label",
]
MANDATORY = ["take_axis:negative-position", "sort_axis", "sort_axis:key", "sort_axis:dict", "take_axis:label", "take_axis:position", "take_axis:repeats", "compress_axis",
             "compress:nd", "dropna:minvalid", "dropna:default", "dropna:1d", "dropna:partial", "fillna", "fillna:inplace", "fillna:positional", "setna:value",
             "setna:list", "setna:mask", "setna:list+mask", "setna:tuple", "take_axis:labels-in-the-other-numeric-kind", "setna:int-data", "setna:near-miss-value", "axis:not-first", "labels:shuf", "labels:s"]


def budget(tier):
    return {"quick": dict(examples=3000, shards=1), "thorough": dict(examples=15000, shards=16)}[tier]


OPS = ["sort_axis", "take_axis", "compress_axis", "compress", "dropna", "fillna", "setna"]


@st.composite
def case_st(draw):
    op = draw(st.sampled_from(OPS))
    nd = draw(st.integers(1, 4))
    spec = draw(gen.array_spec(min_dims=nd, max_dims=nd, min_size=1, max_size=4 if nd < 4 else 3, vks="fi" if op == "setna" else "fffi"))
    ncell = int(np.prod([len(l) for l in spec["labels"]]))
    shape = [len(l) for l in spec["labels"]]
    ax = draw(st.integers(0, nd - 1))
    if spec["vk"] == "f":
        vals = [k / 4.0 for k in draw(st.lists(st.integers(-8, 8), min_size=ncell, max_size=ncell))]
        mode = draw(st.sampled_from(["none", "sparse", "slices", "all", "sparse", "slices"])) if op in ("dropna", "fillna", "setna") else "none"
        arr = np.arange(ncell).reshape(shape)
        if mode == "sparse":
            for j in draw(st.lists(st.integers(0, ncell - 1), min_size=1, max_size=max(1, ncell // 3))):
                vals[j] = "NaN"
        elif mode == "slices":
            for k in draw(st.lists(st.integers(0, shape[ax] - 1), min_size=1, max_size=shape[ax], unique=True)):
                for j in np.take(arr, k, axis=ax).ravel().tolist():
                    vals[j] = "NaN"
        elif mode == "all":
            vals = ["NaN"] * ncell
        if op in ("dropna", "fillna", "setna") and draw(st.integers(0, 3)) == 0:
            # infinite values are data, not missing values
            for j in draw(st.lists(st.integers(0, ncell - 1), min_size=1, max_size=2, unique=True)):
                if vals[j] != "NaN":
                    vals[j] = draw(st.sampled_from(["inf", "-inf"]))
    else:
        vals = draw(st.lists(st.integers(-3, 3), min_size=ncell, max_size=ncell))
    spec["vals"] = vals
    labs = spec["labels"][ax]
    n = len(labs)
    p = {}
    if op == "sort_axis":
        p["key"] = draw(st.sampled_from([None, None, "neg", "strrev", "dict", "const-mod2", "slice-rev"]))
    elif op == "take_axis":
        if draw(st.booleans()):
            p = {"indexing": "label", "indices": draw(st.lists(st.sampled_from(labs), min_size=0, max_size=5))}
        else:
            p = {"indexing": "position", "indices": draw(st.lists(st.integers(-n, n - 1), min_size=0, max_size=5))}
        p["as"] = draw(st.sampled_from(["list", "array", "tuple"]))
        if p["indexing"] == "label" and p["indices"] and core.label_kind(labs) in "if" and all(float(x) == int(x) for x in p["indices"]) and draw(st.integers(0, 2)) == 0:
            # the same labels written in the other numeric kind (1 for 1.0, 1.0 for 1): the result keeps the axis' kind
            p["indices"] = [float(x) for x in p["indices"]] if core.label_kind(labs) == "i" else [int(x) for x in p["indices"]]
            p["other_kind"] = True
    elif op == "compress_axis":
        p["mask"] = draw(st.lists(st.booleans(), min_size=n, max_size=n))
    elif op == "compress":
        p["mask"] = draw(st.lists(st.booleans(), min_size=ncell, max_size=ncell))
        p["how"] = draw(st.sampled_from(["compress", "getitem", "getitem-dimarray"]))
    elif op == "fillna":
        p = {"value": draw(st.sampled_from([0.0, -1, 7.5, "missing", 1, True])), "inplace": draw(st.booleans()), "positional": draw(st.integers(0, 2)) == 0}
    elif op == "setna":
        present = [v for v in vals if v != "NaN"]
        form = draw(st.sampled_from(["value", "list", "mask", "mask-dimarray", "absent", "list+mask", "near", "near"]))
        finite = [v for v in present if v not in ("inf", "-inf")]
        if form == "near" and finite:
            # values that no cell equals, but that are next to ones that do (x + 0.5 over integers, the integral part of a fractional x)
            near = [v + draw(st.sampled_from([0.5, -0.5, 0.25])) for v in draw(st.lists(st.sampled_from(finite), min_size=1, max_size=2))]
            if draw(st.booleans()):
                # ... or differing in the sixth significant digit only (next to 0: by 1e-9)
                near = [(float(v) * (1 + 3e-6) if v else 1e-9) for v in draw(st.lists(st.sampled_from(finite), min_size=1, max_size=2))]
            near += [int(v) for v in finite if v != int(v)][:1]
            near = [v for v in near if v not in present] or [99.5]
            p["value"] = near[0] if draw(st.booleans()) else near + draw(st.lists(st.sampled_from(finite), max_size=1))
        elif form == "value" and present:
            p["value"] = draw(st.sampled_from(present))
        elif form == "list" and present:
            p["value"] = draw(st.lists(st.sampled_from(present + [99]), min_size=1, max_size=3))
        elif form in ("mask", "mask-dimarray"):
            p["mask"] = draw(st.lists(st.booleans(), min_size=ncell, max_size=ncell))
        elif form == "list+mask":
            # the docstring's a.setna([-99, a > 1]): values and boolean masks (ndarray / DimArray) in one sequence
            p["value"] = draw(st.lists(st.sampled_from(present + [99]), min_size=0, max_size=2))
            p["masks"] = [draw(st.lists(st.booleans(), min_size=ncell, max_size=ncell)) for _ in range(draw(st.integers(1, 2)))]
            p["mask_as"] = draw(st.sampled_from(["ndarray", "dimarray"]))
            p["mask_first"] = draw(st.booleans())
        else:
            p["value"] = 99
        p["form"] = form
        p["seq_as"] = draw(st.sampled_from(["list", "list", "tuple"]))      # a sequence of values (and masks) given as a list or as a tuple
        p["inplace"] = draw(st.booleans())
    return {"op": op, "spec": spec, "ax": ax, "axis_form": draw(st.sampled_from(["name", "pos", "neg"])), "p": p}


def enumerate_cases(tier):
    """dropna thresholds: slices of every size m = 1..12 (as one dimension and, where m factorises, as two) holding every number of NaNs
    0..m, against every minvalid 0..m (the runner sweeps minvalid)"""
    for m in range(1, 13):
        shapes = [(m,)] + [(a, m // a) for a in (2, 3) if m % a == 0 and m // a > 1]
        for sh in shapes:
            for axpos in (0, len(sh)):
                rows = m + 1
                vals = []
                for j in range(rows):          # row j: j NaNs, spread from the end
                    vals.append([("NaN" if k >= m - j else float(k + 1)) for k in range(m)])
                arr = np.array([[np.nan if x == "NaN" else x for x in r] for r in vals]).reshape((rows,) + sh)
                if axpos:
                    arr = np.moveaxis(arr, 0, -1)
                dims = ["x", "y", "z"][:len(sh)]
                dims = (["t"] + dims) if axpos == 0 else (dims + ["t"])
                labels = [list(range(n))[::-1] for n in arr.shape]
                flat = ["NaN" if np.isnan(x) else float(x) for x in arr.ravel().tolist()]
                yield "dropna-threshold-grid", {"op": "dropna", "spec": {"dims": dims, "labels": labels, "vk": "f", "vals": flat}, "ax": dims.index("t"),
                                                "axis_form": "name" if m % 2 else "neg", "p": {}}
    # dropna along an INTERIOR dimension of 3- and 4-dimensional arrays (the other dimensions before and after it are longer than 1)
    for sh, ax in (((2, 3, 2), 1), ((3, 4, 2), 1), ((2, 3, 2, 2), 1), ((2, 2, 3, 2), 2), ((2, 2, 2, 3), 2)):
        for pat in range(4):
            n = int(np.prod(sh))
            idx = np.arange(n).reshape(sh)
            vals = [float(k + 1) for k in range(n)]
            # NaNs concentrated in some labels of the interior dimension, at positions that a scrambled layout would attribute to other labels
            for j in range(sh[ax]):
                if (j + pat) % 3 == 0:
                    sl = [slice(None)] * len(sh)
                    sl[ax] = j
                    cells = np.atleast_1d(idx[tuple(sl)]).ravel().tolist()
                    for c_ in cells[:max(1, (len(cells) * (pat + 1)) // 4)]:
                        vals[c_] = "NaN"
            dims = ["x", "t", "y", "z"][:len(sh)] if ax == 1 else ["x", "y", "t", "z"][:len(sh)]
            labels = [list(range(n_))[::-1] for n_ in sh]
            yield "dropna-interior-axis", {"op": "dropna", "spec": {"dims": dims, "labels": labels, "vk": "f", "vals": vals}, "ax": ax, "axis_form": "name" if pat % 2 else "neg", "p": {}}
    for x in _range_perm_cases():
        yield x
    # labels asked for in the other numeric kind (1.0 for 1, 2 for 2.0): the same slices, the axis' own kind in the result
    for labs, ind in (([3, 1, 2], [1.0, 3.0]), ([3, 1, 2], [2.0, 2.0, 1.0]), ([2.0, 0.0, 1.0], [1, 2]), ([2.0, 0.0, 1.0], [0, 0]), ([20240101, 20240103], [20240103.0])):
        for as_ in ("list", "array", "tuple"):
            for ax, dims in ((0, ["t", "y"]), (1, ["y", "t"])):
                labels = [list(labs), ["a", "b"]] if ax == 0 else [["a", "b"], list(labs)]
                yield "take_axis-labels-in-the-other-numeric-kind", {"op": "take_axis", "spec": {"dims": dims, "labels": labels, "vk": "f", "vals": [float(k) + 0.5 for k in range(2 * len(labs))]}, "ax": ax, "axis_form": "name",
                                                                     "p": {"indexing": "label", "indices": list(ind), "as": as_, "other_kind": True}}


def _range_perm_cases():
    """take_axis on an axis whose int labels are a permutation of the positions 0..3: every permutation x a few index lists"""
    import itertools
    for perm in itertools.permutations(range(4)):
        for ind in ([perm[1], perm[2]], [2, 1], [3, 0, 0], list(perm)):
            for indexing in ("label", "position"):
                for ax, dims in ((0, ["t", "y"]), (1, ["y", "t"])):
                    labels = [list(perm), ["a", "b"]] if ax == 0 else [["a", "b"], list(perm)]
                    yield "take_axis-permuted-range-labels", {"op": "take_axis", "spec": {"dims": dims, "labels": labels, "vk": "f", "vals": [float(k) for k in range(8)]}, "ax": ax,
                                                              "axis_form": "name", "p": {"indexing": indexing, "indices": list(ind), "as": "list"}}


def strategy(tier):
    return case_st()


# ----------------------------------------------------------------------------------------------

def take_expected(vals, ax, positions):
    src = np.asarray(vals, dtype=object)
    return np.take(src, np.array(positions, dtype=int), axis=ax) if len(positions) else np.take(src, np.array([], dtype=int), axis=ax)


def compare(res, dims, labels, exp, what, sig, src=None):
    da = core.env.import_dimarray()
    check(isinstance(res, da.DimArray), "not-a-dimarray", {"what": what, "got": core.brief(res)}, sig)
    if src is not None:
        # selecting, sorting and dropping hand the data and the labels through unconverted (also when nothing is left)
        check(res.values.dtype == src.values.dtype, "value-dtype", {"what": what, "got": str(res.values.dtype), "source": str(src.values.dtype)}, sig)
        for i_, ax_ in enumerate(src.axes):
            if ax_.size and res.axes[i_].size:
                k1, k2 = ax_.values.dtype.kind, res.axes[i_].values.dtype.kind
                check(("s" if k1 in "OUS" else k1) == ("s" if k2 in "OUS" else k2), "label-kind", {"what": what, "dim": ax_.name, "got": str(res.axes[i_].values.dtype), "source": str(ax_.values.dtype)}, sig)
    check(list(res.dims) == list(dims), "dims", {"what": what, "got": list(res.dims), "expected": list(dims)}, sig)
    for i, d in enumerate(dims):
        check(core.same_labels(res.axes[i].values, labels[i]), "labels", {"what": what, "dim": d, "got": core.jsonable(res.axes[i].values), "expected": core.jsonable(labels[i])}, sig)
    g = np.asarray(res.values, dtype=object)
    check(g.shape == exp.shape, "shape", {"what": what, "got": list(g.shape), "expected": list(exp.shape)}, sig)
    for idx in itertools.product(*[range(s) for s in exp.shape]):
        x, y = g[idx], exp[idx]
        if not (core.same_scalar(x, y) and (not isinstance(y, str) or isinstance(x, str))):
            raise Violation("value", {"what": what, "cell": list(idx), "got": core.jsonable(x), "expected": core.jsonable(y), "result": core.brief(res)}, sig=sig)
    # the result is an array like any other: the cell at its last labels is found BY LABEL (a result that silently answers by position,
    # or whose lookup state is stale, fails here)
    if exp.ndim and all(len(l) and len(set(map(core.canon_label, l))) == len(l) for l in labels) and not any(core.isnan(x) for l in labels for x in l if isinstance(x, float)):
        key = tuple(core.label_array(l)[-1].item() if hasattr(core.label_array(l)[-1], "item") else core.label_array(l)[-1] for l in labels)
        got = lib(lambda: res[key], what=what + " then result[%s] (by label)" % (core.jsonable(list(key)),), sig=sig)
        y = exp[tuple([-1] * exp.ndim)]
        check(core.same_scalar(got, y), "result-answers-label-lookup-wrongly", {"what": what, "key": core.jsonable(list(key)), "got": core.jsonable(got), "expected": core.jsonable(y),
                                                                               "result": core.brief(res)}, sig)


# ("slice-rev" is also meaningful - differently - on a whole array of labels)
KEYS = {"neg": lambda x: -x, "strrev": lambda x: str(x)[::-1], "slice-rev": lambda x: x[::-1], "const-mod2": lambda x: (x if isinstance(x, str) else int(x * 4)) in ("a", "c", "e") if isinstance(x, str) else int(x * 4) % 2}


def run_case(case):
    da = core.env.import_dimarray()
    op, spec, ax, p = case["op"], case["spec"], case["ax"], case["p"]
    dims, labels = spec["dims"], spec["labels"]
    nd = len(dims)
    a = core.build(spec, attrs={"units": "m"})
    snap = core.snapshot(a)
    vals = core.spec_values(spec)
    labs = labels[ax]
    n = len(labs)
    axis = dims[ax] if case["axis_form"] == "name" else (ax if case["axis_form"] == "pos" else ax - nd)      # (negative positions count from the end)
    sig = {"op": op}
    what = "%s %s axis=%r dims=%s labels=%s vals=%s" % (op, core.jsonable(p), axis, dims, labels, spec["vals"])
    cl = set()
    o = gen.order_of(labs)
    if o == "shuf":
        cl.add("labels:shuf")
    if core.label_kind(labs) == "s":
        cl.add("labels:s")
    if ax > 0:
        cl.add("axis:not-first")
    nontrivial = (nd >= 2 and ax > 0) or o in ("shuf", "dec")

    def newlabels(positions):
        out = [list(l) for l in labels]
        out[ax] = [labs[i] for i in positions]
        return out

    if op == "sort_axis":
        key = p["key"]
        if key == "neg" and core.label_kind(labs) == "s":
            key = "strrev"
        if key == "slice-rev" and core.label_kind(labs) != "s":
            key = "strrev"
        if key is None:
            pos = sorted(range(n), key=lambda i: labs[i])
            res = lib(lambda: a.sort_axis(axis=axis), what=what, sig=sig)
            cl.add("sort_axis")
        elif key == "dict":
            dct = {l: (7 * k + 3) % 5 for k, l in enumerate(sorted(labs, key=str))}
            pos = sorted(range(n), key=lambda i: dct[labs[i]])
            res = lib(lambda: a.sort_axis(axis=axis, key=dct), what=what, sig=sig)
            cl.add("sort_axis:dict")
        else:
            f = KEYS[key]
            pos = sorted(range(n), key=lambda i: f(labs[i]))
            res = lib(lambda: a.sort_axis(axis=axis, key=f), what=what, sig=sig)
            cl.add("sort_axis:key")
        compare(res, dims, newlabels(pos), take_expected(vals, ax, pos), what, sig, src=a)
        # the documented parameter order sort_axis(axis, key), given by position, and the module-level function
        kobj = None if key is None else (dct if key == "dict" else KEYS[key])
        res = lib(lambda: a.sort_axis(axis, kobj), what=what + " [axis, key by position]", sig=sig)
        compare(res, dims, newlabels(pos), take_expected(vals, ax, pos), what + " [axis, key by position]", sig, src=a)
        if hasattr(da, "sort_axis"):
            res = lib(lambda: da.sort_axis(a, axis, kobj), what=what + " [dimarray.sort_axis(a, axis, key)]", sig=sig)
            compare(res, dims, newlabels(pos), take_expected(vals, ax, pos), what + " [module-level function]", sig, src=a)
    elif op == "take_axis":
        ind = p["indices"]
        if p["indexing"] == "label":
            canon = [core.canon_label(x) for x in labs]
            pos = [canon.index(core.canon_label(x)) for x in ind]
        else:
            pos = [i % n for i in ind]          # negative positions count from the end, as in NumPy
            if any(i < 0 for i in ind):
                cl.add("take_axis:negative-position")
        arg = list(ind) if p["as"] == "list" else tuple(ind) if p["as"] == "tuple" else (core.label_array(ind) if p["indexing"] == "label" and ind else np.array(ind, dtype=int if p["indexing"] == "position" or not ind else None))
        res = lib(lambda: a.take_axis(arg, axis=axis, indexing=p["indexing"]), what=what, sig=sig)
        compare(res, dims, newlabels(pos), take_expected(vals, ax, pos), what, sig, src=a)
        # the documented parameter order take_axis(indices, axis, indexing, mode), given by position
        res = lib(lambda: a.take_axis(arg, axis, p["indexing"], "raise"), what=what + " [arguments by position]", sig=sig)
        compare(res, dims, newlabels(pos), take_expected(vals, ax, pos), what + " [arguments by position]", sig, src=a)
        cl.add("take_axis:" + p["indexing"])
        if p.get("other_kind"):
            cl.add("take_axis:labels-in-the-other-numeric-kind")
        if len(set(pos)) < len(pos):
            cl.add("take_axis:repeats")
    elif op == "compress_axis":
        pos = [i for i, b in enumerate(p["mask"]) if b]
        for mname, m in (("array", np.array(p["mask"], dtype=bool)), ("list", list(p["mask"]))):
            res = lib(lambda: a.compress_axis(m, axis=axis), what=what + " mask as " + mname, sig=sig)
            compare(res, dims, newlabels(pos), take_expected(vals, ax, pos), what, sig, src=a)
        cl.add("compress_axis")
    elif op == "compress":
        mask = np.array(p["mask"], dtype=bool).reshape(vals.shape)
        m = mask if p["how"] != "getitem-dimarray" else da.DimArray(mask, axes=[x.copy() for x in a.axes])
        if p["how"] == "compress":
            res = lib(lambda: a.compress(m), what=what, sig=sig)
        else:
            res = lib(lambda: a[m], what=what, sig=sig)
        cells = [idx for idx in itertools.product(*[range(s) for s in vals.shape]) if mask[idx]]
        exp_vals = [vals[idx] for idx in cells]
        if nd == 1:
            pos = [i[0] for i in cells]
            compare(res, dims, newlabels(pos), take_expected(vals, 0, pos), what, sig, src=a)
        else:
            cl.add("compress:nd")
            if len(cells) == 1 and not isinstance(res, da.DimArray):
                check(core.same_scalar(res, exp_vals[0]), "value", {"what": what, "got": core.jsonable(res)}, sig)
            else:
                check(isinstance(res, da.DimArray) and res.ndim == 1, "compress-result", {"what": what, "got": core.brief(res)}, sig)
                got = np.asarray(res.values).tolist()
                check(len(got) == len(exp_vals) and all(core.same_scalar(x, y) for x, y in zip(got, exp_vals)), "compress-values", {"what": what, "got": core.jsonable(got), "expected": core.jsonable(exp_vals)}, sig)
                # every kept value stays attached to its label coordinates
                gl = res.axes[0].values.tolist()
                exp_l = [tuple(core.canon_label(labels[i][k]) for i, k in enumerate(idx)) for idx in cells]
                kinds = {core.label_kind(l) for l in labels}
                if kinds <= {"i", "f"} or kinds == {"s"}:
                    check([tuple(core.canon_label(x) for x in t) for t in gl] == exp_l, "compress-labels", {"what": what, "got": core.jsonable(gl), "expected": core.jsonable(exp_l)}, sig)
                check(res.dims[0] == ",".join(dims), "compress-dim-name", {"what": what, "got": list(res.dims)}, sig)
        nontrivial = 0 < len(cells) < mask.size
    elif op == "dropna":
        src = np.asarray(vals, dtype=object)
        slice_size = int(vals.size // n)
        valid = []
        for k in range(n):
            sl = np.take(vals, k, axis=ax)
            valid.append(int(np.sum(~np.isnan(np.asarray(sl, dtype=float)))))
        if nd == 1:
            grid = [None]
            cl.add("dropna:1d")
        else:
            grid = [None] + list(range(0, slice_size + 1))
        for mv in grid:
            kw = {} if mv is None else {"minvalid": mv}
            keep = [k for k in range(n) if valid[k] >= (slice_size if mv is None else mv)]
            w = what + " minvalid=%r" % mv
            res = lib(lambda: a.dropna(axis=axis, **kw), what=w, sig=sig)
            compare(res, dims, newlabels(keep), take_expected(vals, ax, keep), w, sig, src=a)
            cl.add("dropna:default" if mv is None else "dropna:minvalid")
            if 0 < len(keep) < n:
                cl.add("dropna:partial")
                nontrivial = True
    elif op == "fillna":
        v = p["value"]
        exp = np.asarray(vals, dtype=object).copy()
        nanmask = np.array([core.isnan(x) for x in exp.ravel().tolist()]).reshape(exp.shape)
        exp[nanmask] = v
        if p.get("positional"):
            # the documented signature fillna(value, inplace=False, na=nan), second argument given by position
            r = lib(lambda: a.fillna(v, bool(p["inplace"])), what=what + " [inplace by position]", sig=sig)
            res = a if p["inplace"] else r
            check((r is None) == bool(p["inplace"]), "fillna-return-convention", {"what": what, "returned": core.brief(r)}, sig)
            cl.add("fillna:positional")
            if p["inplace"]:
                cl.add("fillna:inplace")
        elif p["inplace"]:
            r = lib(lambda: a.fillna(v, inplace=True), what=what, sig=sig)
            res = a
            cl.add("fillna:inplace")
        else:
            res = lib(lambda: a.fillna(v), what=what, sig=sig)
        compare(res, dims, labels, exp, what, sig)
        cl.add("fillna")
        if spec["vk"] == "f" and isinstance(v, (int, float)) and not isinstance(v, bool) and not core.isnan(v):
            # the same cells in single precision: NaN is NaN in every float width
            v32 = np.asarray(vals, dtype=np.float32)
            a32 = da.DimArray(v32.copy(), axes=[x.copy() for x in a.axes] if not p["inplace"] else [da.Axis(core.label_array(l), d) for d, l in zip(dims, labels)])
            r32 = lib(lambda: a32.fillna(v), what=what + " [float32 data]", sig=sig)
            g = np.asarray(r32.values)
            check(g.dtype.kind == "f" and g.shape == v32.shape and not np.isnan(g).any() and np.array_equal(g[~np.isnan(v32)], v32[~np.isnan(v32)])
                  and np.all(g[np.isnan(v32)] == np.float32(v)), "fillna-single-precision", {"what": what, "got": core.jsonable(g), "data": core.jsonable(v32), "value": core.jsonable(v)}, sig)
        nontrivial = bool(nanmask.any()) and not bool(nanmask.all())
    elif op == "setna":
        exp = np.asarray(vals, dtype=object).copy()
        form = p["form"]
        if "masks" in p:
            p = dict(p, value=[float(v) if isinstance(v, str) and v in ("inf", "-inf") else v for v in p["value"]])
            masks = [np.array(mk, dtype=bool).reshape(vals.shape) for mk in p["masks"]]
            mask = np.zeros(vals.shape, dtype=bool)
            for idx in itertools.product(*[range(s) for s in vals.shape]):
                mask[idx] = any((not core.isnan(exp[idx])) and exp[idx] == x for x in p["value"]) or any(mk[idx] for mk in masks)
            margs = [mk if p["mask_as"] == "ndarray" else da.DimArray(mk, axes=[x.copy() for x in a.axes]) for mk in masks]
            arg = (margs + list(p["value"])) if p["mask_first"] else (list(p["value"]) + margs)
            cl.add("setna:list+mask")
        elif "mask" in p:
            mask = np.array(p["mask"], dtype=bool).reshape(vals.shape)
            arg = mask if form == "mask" else da.DimArray(mask, axes=[x.copy() for x in a.axes])
            cl.add("setna:mask")
        else:
            dec = lambda v: float(v) if isinstance(v, str) and v in ("inf", "-inf") else v      # (JSON spelling of the infinities)
            p = dict(p, value=[dec(v) for v in p["value"]] if isinstance(p["value"], list) else dec(p["value"]))
            vs = p["value"] if isinstance(p["value"], list) else [p["value"]]
            mask = np.zeros(vals.shape, dtype=bool)
            for idx in itertools.product(*[range(s) for s in vals.shape]):
                mask[idx] = any((not core.isnan(exp[idx])) and exp[idx] == x for x in vs)
            arg = p["value"]
            cl.add("setna:list" if isinstance(arg, list) else "setna:value")
            if form == "near":
                cl.add("setna:near-miss-value")
                if spec["vk"] == "i":
                    cl.add("setna:near-miss-value-int-data")
        exp[mask] = float("nan")
        margs_ = [x for x in (arg if isinstance(arg, list) else [arg]) if isinstance(x, (np.ndarray, da.DimArray))]
        if isinstance(arg, list) and p.get("seq_as") == "tuple":
            arg = tuple(arg)
            cl.add("setna:tuple")
        before_ = [np.array(getattr(x, "values", x), copy=True) for x in margs_]
        if p["inplace"]:
            lib(lambda: a.setna(arg, inplace=True), what=what, sig=sig)
            res = a
        else:
            res = lib(lambda: a.setna(arg), what=what, sig=sig)
        for x, b_ in zip(margs_, before_):      # the masks handed in are arguments, not scratch space
            check(np.array_equal(getattr(x, "values", x), b_), "mask-argument-modified", {"what": what, "now": core.jsonable(getattr(x, "values", x)), "was": core.jsonable(b_)}, sig)
        compare(res, dims, labels, exp, what, sig)
        if spec["vk"] == "i":
            cl.add("setna:int-data")
            if mask.any():
                check(res.values.dtype.kind == "f", "int-not-promoted-to-float", {"what": what, "dtype": str(res.values.dtype)}, sig)
        nontrivial = bool(mask.any()) and not bool(mask.all())
    if not (p.get("inplace") and op in ("fillna", "setna")):
        core.expect_unchanged(a, snap, what, sig)
    return {"classes": sorted(cl), "nontrivial": bool(nontrivial)}
