"""C07 - Reindexing moves data together with its labels.

Statement: "reindex_axis(new_labels, axis) returns an array whose axis is exactly new_labels (same order, same
values), whose slice at each new label equals the original slice at that label when the label existed and the
fill value otherwise (NaN by default, promoting integer data to float), with all other axes unchanged;
raise_error=True raises instead of filling and method='left'/'right' takes the neighbouring label in sorted
order as numpy.searchsorted would.  Reindexing onto the array's own labels is the identity, and reindex_like
applies the same rule to every dimension shared with the template."

Oracle: position of each new label found by list lookup; expected = take of the source slices in that order,
fill elsewhere; method: bisect on the sorted labels with clipping (written from the statement).
"""
import bisect
import itertools

import numpy as np
from hypothesis import strategies as st

from vlib import core, gen
from vlib.core import lib, check, Violation

ID = "C07"
TITLE = "Reindexing moves data together with its labels"
RULE = ("generated arrays (1-4 dims, sizes 1-4, int/float/str labels in any order, float/int/bool values) x axis by name or position x new "
        "labels (subset | superset | disjoint | permuted | repeated (present and absent labels) | empty | int-for-float) given as list / ndarray / Axis x fill in "
        "{NaN, -1, 'missing'} x raise_error x method in {None, left, right}; reindex_like with a template sharing 0..all dimensions; "
        "identity on own labels.  Non-trivial: the source axis is not stored increasing and the new vector is not a prefix of it, or "
        "some label is missing.")
ASSUMPTIONS = [
    "oracle: list lookup + np.take on an object copy of the values; moved values compared exactly",
    "method left/right: j = clip(bisect_<side>(sorted labels, l), 0, n-1), written from the statement",
    "new labels are of the axis' kind (int/float interchangeable)",
]
MANDATORY = ["call:positional", "like:raise_error", "like:raise_error-raised", "new:float-for-int", "new:repeated", "new:repeated-missing", "new:empty", "new:missing", "new:permuted", "as:axis", "as:array", "fill:str", "fill:-1", "fill:nan-into-int",
             "raise_error:raised", "method:left", "method:right", "source:shuf", "axis:not-first", "like", "identity"]


def budget(tier):
    return {"quick": dict(examples=3000, shards=1), "thorough": dict(examples=15000, shards=16)}[tier]


@st.composite
def new_labels(draw, labs):
    kind = core.label_kind(labs)
    mode = draw(st.sampled_from(["subset", "superset", "disjoint", "permuted", "repeated", "empty", "own", "mixed", "interior", "inner-permuted"]))
    if mode == "own":
        new = list(labs)
    elif mode == "empty":
        new = []
    elif mode == "permuted":
        new = list(draw(st.permutations(labs)))
    elif mode == "repeated":
        new = draw(st.lists(st.sampled_from(labs), min_size=2, max_size=5))
    elif mode in ("interior", "inner-permuted"):
        # same length, same first and last label; the labels in between are other ones / the same ones in another order
        rel, new = draw(gen.related_labels(labs, kind, relation=mode, order="asis"))
    else:
        rel, new = draw(gen.related_labels(labs, kind, relation={"subset": "subset", "superset": "superset", "disjoint": "disjoint",
                                                                    "mixed": "overlapping"}[mode], allow_empty=True))
        if mode == "mixed":
            # insert absent labels below / between as well
            new = new + [gen.absent_label(labs, kind, w) for w in draw(st.lists(st.sampled_from(["below", "between", "above"]), max_size=2))]
            new = list(draw(st.permutations(list(dict.fromkeys(new)))))
    if new and draw(st.integers(0, 4)) == 0:
        # some of the requested labels asked for more than once (present and absent ones alike)
        new = list(new)
        for x in draw(st.lists(st.sampled_from(new), min_size=1, max_size=2)):
            new.insert(draw(st.integers(0, len(new))), x)
    if draw(st.integers(0, 4)) == 0:
        falsy = {"i": 0, "f": 0.0, "s": ""}[kind]        # 0 / 0.0 / '' asked for although the axis does not have it (alone or next to other absent labels)
        if falsy not in labs and falsy not in new:
            new = list(new)
            new.insert(draw(st.integers(0, len(new))), falsy)
    if kind == "f" and draw(st.integers(0, 4)) == 0:
        new = [int(x) if float(x) == int(x) else x for x in new]   # int-for-float
    if kind == "i" and draw(st.integers(0, 3)) == 0:
        # float-for-int: a finer grid over an integer axis (missing labels that are not integral)
        extra = [x + 0.5 for x in draw(st.lists(st.sampled_from(labs), min_size=1, max_size=2, unique=True))]
        new = list(draw(st.permutations([float(x) for x in new] + extra)))
    return new


@st.composite
def reindex_case(draw):
    spec = draw(gen.array_spec(min_dims=1, max_dims=4, min_size=1, max_size=4, vks="ffiib"))
    ax = draw(st.integers(0, len(spec["dims"]) - 1))
    new = draw(new_labels(spec["labels"][ax]))
    method = draw(st.sampled_from([None, None, None, "left", "right"]))
    return {"mode": "axis", "spec": spec, "ax": ax, "axis_form": draw(st.sampled_from(["name", "pos", "neg"])), "new": new,
            "as": draw(st.sampled_from(["list", "array", "axis"])), "fill": draw(st.sampled_from(["nan", "nan", "nan", -1, "missing", 0, ""])),
            # raise_error is only combined with method=None: with a method nothing is ever filled, the statement does not say what "missing" means
            "raise_error": draw(st.sampled_from([False, False, True])) if method is None else False, "method": method, "positional": draw(st.integers(0, 3)) == 0}


@st.composite
def like_case(draw):
    spec = draw(gen.array_spec(min_dims=1, max_dims=3, min_size=1, max_size=3, vks="fi"))
    tdims, tlabels = [], []
    for d, l in zip(spec["dims"], spec["labels"]):
        if draw(st.booleans()):
            tdims.append(d)
            tlabels.append(draw(new_labels(l)))
    for d in gen.NAMES:
        if d not in spec["dims"] and draw(st.integers(0, 3)) == 0:
            tdims.append(d)
            tlabels.append(draw(gen.labels(draw(st.integers(1, 3)))))
    order = draw(st.permutations(list(range(len(tdims)))))
    tdims = [tdims[i] for i in order]
    tlabels = [tlabels[i] for i in order]
    return {"mode": "like", "spec": spec, "tdims": tdims, "tlabels": tlabels, "t_as": draw(st.sampled_from(["dimarray", "axes"])),
            "fill": draw(st.sampled_from(["nan", "nan", -1, 0])), "raise_error": draw(st.sampled_from([False, False, True]))}


def strategy(tier):
    return st.one_of(reindex_case(), reindex_case(), reindex_case(), like_case())


# ----------------------------------------------------------------------------------------------

def _fill(fill):
    return float("nan") if fill == "nan" else fill


def expected_reindex(vals, labels, ax, new, fill, method):
    """-> (expected object ndarray, missing flags)"""
    labs = [core.canon_label(x) for x in labels[ax]]
    src = np.asarray(vals, dtype=object)
    shape = list(src.shape)
    shape[ax] = len(new)
    out = np.empty(shape, dtype=object)
    missing = []
    if method is not None:
        order = sorted(range(len(labs)), key=lambda i: labs[i])
        srt = [labs[i] for i in order]
    for k, l in enumerate(new):
        c = core.canon_label(l)
        sl_out = [slice(None)] * src.ndim
        sl_out[ax] = k
        sl_in = [slice(None)] * src.ndim
        if method is None:
            if c in labs:
                sl_in[ax] = labs.index(c)
                out[tuple(sl_out)] = src[tuple(sl_in)]
                missing.append(False)
            else:
                out[tuple(sl_out)] = fill
                missing.append(True)
        else:
            j = (bisect.bisect_left if method == "left" else bisect.bisect_right)(srt, c)
            j = min(max(j, 0), len(srt) - 1)
            sl_in[ax] = order[j]
            out[tuple(sl_out)] = src[tuple(sl_in)]
            missing.append(c not in labs)
    return out, missing


def compare(res, dims, labels, exp, what, sig):
    da = core.env.import_dimarray()
    check(isinstance(res, da.DimArray), "not-a-dimarray", {"what": what, "got": core.brief(res)}, sig)
    check(list(res.dims) == list(dims), "dims", {"what": what, "got": list(res.dims), "expected": list(dims)}, sig)
    for i, d in enumerate(dims):
        check(core.same_labels(res.axes[i].values, labels[i]), "labels", {"what": what, "dim": d, "got": core.jsonable(res.axes[i].values), "expected": core.jsonable(labels[i])}, sig)
    g = np.asarray(res.values, dtype=object)
    check(g.shape == exp.shape, "shape", {"what": what, "got": list(g.shape), "expected": list(exp.shape)}, sig)
    for idx in itertools.product(*[range(s) for s in exp.shape]):
        x, y = g[idx], exp[idx]
        ok = core.same_scalar(x, y) and (not isinstance(y, str) or isinstance(x, str))
        if not ok:
            raise Violation("value", {"what": what, "cell": list(idx), "got": core.jsonable(x), "expected": core.jsonable(y), "result": core.brief(res)}, sig=sig)


def run_axis(case):
    da = core.env.import_dimarray()
    spec, ax, new, method = case["spec"], case["ax"], case["new"], case["method"]
    dims, labels = spec["dims"], spec["labels"]
    vals = core.spec_values(spec)
    a = core.build(spec, attrs={"units": "K"})
    snap = core.snapshot(a)
    fill = _fill(case["fill"])
    if case["as"] == "axis":
        newobj = da.Axis(core.label_array(new) if new else np.array([], dtype=np.asarray(core.label_array(labels[ax])).dtype), dims[ax])
        kw = {}
    else:
        newobj = list(new) if case["as"] == "list" else (core.label_array(new) if new else np.array([], dtype=core.label_array(labels[ax]).dtype))
        kw = {"axis": dims[ax] if case["axis_form"] == "name" else (ax if case["axis_form"] == "pos" else ax - len(dims))}
    if case["fill"] != "nan":
        kw["fill_value"] = fill
    if case["raise_error"]:
        kw["raise_error"] = True
    if method is not None:
        kw["method"] = method
    exp, missing = expected_reindex(vals, labels, ax, new, fill, method)
    call = lambda: a.reindex_axis(newobj, **kw)
    if case.get("positional") and case["as"] != "axis":
        # the documented parameter order reindex_axis(values, axis, fill_value, raise_error, method), all given by position
        call = lambda: a.reindex_axis(newobj, kw["axis"], fill, bool(case["raise_error"]), method)
    what = "reindex_axis(%s as %s, %s) on dims=%s labels=%s" % (core.jsonable(new), case["as"], core.jsonable(kw), dims, labels)
    sig = {"mode": "axis", "method": method}
    cl = set()
    if case["raise_error"] and any(missing):
        core.must_raise(call, (IndexError,), what, sig=sig)
        cl.add("raise_error:raised")
    else:
        res = lib(call, what=what, sig=sig)
        newlabels = [list(l) for l in labels]
        newlabels[ax] = list(new)
        compare(res, dims, newlabels, exp, what, sig)
        if not (any(missing) and method is None):
            # "needs no fill": nothing is filled, so the data are handed through as they are (integers stay integers)
            check(res.values.dtype == a.values.dtype, "dtype-changed-without-fill", {"what": what, "got": str(res.values.dtype), "source": str(a.values.dtype)}, sig)
        if any(missing) and method is None and case["fill"] == "nan" and spec["vk"] == "i":
            check(res.values.dtype.kind == "f", "int-not-promoted-to-float", {"what": what, "dtype": str(res.values.dtype)}, sig)
            cl.add("fill:nan-into-int")
        if [core.canon_label(x) for x in new] == [core.canon_label(x) for x in labels[ax]] and method in (None, "left"):
            cl.add("identity")
    core.expect_unchanged(a, snap, what, sig)
    o = gen.order_of(labels[ax])
    cl.add("source:" + o)
    canon_new = [core.canon_label(x) for x in new]
    canon_old = [core.canon_label(x) for x in labels[ax]]
    if len(set(canon_new)) < len(canon_new):
        cl.add("new:repeated")
        if any(m and canon_new.count(c) > 1 for c, m in zip(canon_new, missing)):
            cl.add("new:repeated-missing")
    if not new:
        cl.add("new:empty")
    if core.label_kind(labels[ax]) == "i" and any(isinstance(x, float) and x != int(x) for x in new):
        cl.add("new:float-for-int")
    if any(missing):
        cl.add("new:missing")
    if set(canon_new) == set(canon_old) and canon_new != canon_old:
        cl.add("new:permuted")
    cl.add("as:" + case["as"])
    if case.get("positional") and case["as"] != "axis":
        cl.add("call:positional")
    if case["fill"] == "missing":
        cl.add("fill:str")
    if case["fill"] == -1:
        cl.add("fill:-1")
    if method:
        cl.add("method:" + method)
    if ax > 0:
        cl.add("axis:not-first")
    nontrivial = (o != "inc" and canon_new != canon_old[:len(canon_new)]) or any(missing)
    return {"classes": sorted(cl), "nontrivial": bool(nontrivial)}


def run_like(case):
    da = core.env.import_dimarray()
    spec = case["spec"]
    dims, labels = spec["dims"], spec["labels"]
    vals = core.spec_values(spec)
    a = core.build(spec)
    snap = core.snapshot(a)
    fill = _fill(case["fill"])
    taxes = [da.Axis(core.label_array(l) if l else np.array([], dtype=float), d) for d, l in zip(case["tdims"], case["tlabels"])]
    if case["t_as"] == "dimarray":
        t = da.DimArray(np.zeros([len(l) for l in case["tlabels"]]), axes=taxes)
    else:
        t = da.Axes(taxes)
    kw = {} if case["fill"] == "nan" else {"fill_value": fill}
    what = "reindex_like(template dims=%s labels=%s as %s, %s) on dims=%s labels=%s" % (case["tdims"], case["tlabels"], case["t_as"], kw, dims, labels)
    sig = {"mode": "like"}
    exp = np.asarray(vals, dtype=object)
    newlabels = [list(l) for l in labels]
    anymissing = False
    for i, d in enumerate(dims):
        if d in case["tdims"]:
            new = case["tlabels"][case["tdims"].index(d)]
            exp, missing = expected_reindex(exp, newlabels, i, new, fill, None)
            newlabels[i] = list(new)
            anymissing = anymissing or any(missing)
    cl = ["like"]
    if case.get("raise_error"):
        # "applies the same rule to every shared dimension": raise_error=True raises as soon as one of them lacks a requested label
        kw["raise_error"] = True
        what += " raise_error=True"
        cl.append("like:raise_error")
    if case.get("raise_error") and anymissing:
        core.must_raise(lambda: a.reindex_like(t, **kw), (IndexError,), what, sig=sig)
        cl.append("like:raise_error-raised")
    else:
        res = lib(lambda: a.reindex_like(t, **kw), what=what, sig=sig)
        compare(res, dims, newlabels, exp, what, sig)
    core.expect_unchanged(a, snap, what, sig)
    shared = [d for d in dims if d in case["tdims"]]
    return {"classes": cl + ["like:shared-%d" % len(shared)], "nontrivial": bool(shared)}


def run_case(case):
    return run_axis(case) if case["mode"] == "axis" else run_like(case)
