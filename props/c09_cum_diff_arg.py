"""C09 - Cumulative, difference and arg-extremum operations keep axis bookkeeping right.

Statement: "cumsum and cumprod return NumPy's cumulative result with all axes unchanged (along the last axis
by default).  diff returns NumPy's n-th difference with the differenced axis shortened by n and relabelled
according to the scheme - backward drops the first n labels, forward the last n, centered takes successive
midpoints - or, with keepaxis, keeps the original axis and pads NaN on the corresponding side.  argmin and
argmax return axis labels rather than positions, such that indexing the array with the returned labels yields
its minimum or maximum."

Oracle: np.cumsum / np.cumprod / np.diff on a plain copy of the values + label rules written from the statement;
for arg-extrema a validity predicate (value at the returned labels == min/max of the fibre) that tolerates ties.
"""
import itertools

import numpy as np
from hypothesis import strategies as st

from vlib import core, gen
from vlib.core import lib, check, Violation

ID = "C09"
TITLE = "Cumulative, difference and arg-extremum operations keep axis bookkeeping right"
RULE = ("generated numeric arrays of 1-4 dims, operated axis of size 1-5 at any position, numeric (any order) and str labels, axis by "
        "name / position / negative position / default; cumsum, cumprod; diff with n in {1,2,3} (incl. n >= size), scheme in {backward, "
        "forward, centered (numeric labels)}, keepaxis in {False, True} on float and int data; argmin/argmax over the whole array and along "
        "each axis with ties and NaNs, skipna both; the diff parameter grid (3 schemes x n 1-3 x keepaxis x sizes 1-5 x int/float data) is "
        "enumerated.  Non-trivial: unsorted labels, n >= 2, size-1 axis, ties/NaN for arg*, or ndim >= 2 with the axis not last.")
ASSUMPTIONS = [
    "values are dyadic so np.diff / np.cumsum results are compared exactly (cumprod with rtol 1e-12)",
    "arg*: with skipna=True an all-NaN fibre may raise NumPy's ValueError",
    "centered differences need numeric labels; centered + keepaxis must raise ValueError",
]
MANDATORY = ["diff:positional", "cum:narrow-dtype", "cumsum", "cumprod", "diff:backward", "diff:forward", "diff:centered", "diff:keepaxis", "diff:n>=size", "diff:int-data-keepaxis",
             "arg:whole", "arg:axis", "arg:ties", "arg:nan", "arg:1d-axis", "labels:str", "labels:unsorted", "axis:default", "axis:not-last"]


def budget(tier):
    return {"quick": dict(examples=3000, shards=1), "thorough": dict(examples=15000, shards=16)}[tier]


@st.composite
def base_array(draw, str_ok=True, vks="ffi", max_dims=4):
    nd = draw(st.integers(1, max_dims))
    dims = list(draw(st.permutations(draw(gen.names_pool()))))[:nd]
    ax = draw(st.integers(0, nd - 1))
    labels = []
    for i in range(nd):
        n = draw(st.integers(1, 5)) if i == ax else draw(st.integers(1, 3))
        labels.append(draw(gen.labels(n, kinds="ifs" if str_ok else "if")))
    spec = {"dims": dims, "labels": labels, "vk": draw(st.sampled_from(list(vks)))}
    ncell = int(np.prod([len(l) for l in labels]))
    if spec["vk"] == "f":
        spec["vals"] = [k / 4.0 for k in draw(st.lists(st.integers(-20, 20), min_size=ncell, max_size=ncell))]
    else:
        spec["vals"] = draw(st.lists(st.integers(-4, 6), min_size=ncell, max_size=ncell))
    spec["hist"] = draw(gen.history(labels))
    return spec, ax


@st.composite
def cum_case(draw):
    spec, ax = draw(base_array())
    narrow = draw(st.sampled_from([None, None, "int8", "int32", "uint8", "bool", "float32"]))
    if narrow:
        n = len(spec["vals"])
        spec["vk"] = "b" if narrow == "bool" else ("f" if narrow == "float32" else "i")
        spec["dtype"] = narrow
        big = {"int8": [100, 120, 90, 7], "int32": [2000000000, 1500000000, 3, 2], "uint8": [200, 250, 3, 100], "bool": [True, True, False, True], "float32": [0.5, 1.5, 2.25, 3.0]}[narrow]
        spec["vals"] = [big[(k + draw(st.integers(0, 3))) % 4] for k in range(n)]
    return {"mode": "cum", "spec": spec, "ax": ax, "op": draw(st.sampled_from(["cumsum", "cumprod"])),
            "axis_form": draw(st.sampled_from(["name", "pos", "neg", "default"]))}


@st.composite
def diff_case(draw):
    scheme = draw(st.sampled_from(["backward", "forward", "centered"]))
    spec, ax = draw(base_array(str_ok=(scheme != "centered")))
    return {"mode": "diff", "spec": spec, "ax": ax, "axis_form": draw(st.sampled_from(["name", "pos", "neg", "default"])), "scheme": scheme,
            "n": draw(st.sampled_from([1, 1, 2, 3])), "keepaxis": draw(st.booleans())}


@st.composite
def arg_case(draw):
    spec, ax = draw(base_array(max_dims=3))
    ncell = len(spec["vals"])
    if spec["vk"] == "f" and draw(st.booleans()):
        for j in draw(st.lists(st.integers(0, ncell - 1), min_size=1, max_size=max(1, ncell // 3))):
            spec["vals"][j] = "NaN"
    if draw(st.booleans()):   # force ties
        spec["vals"] = [v if v == "NaN" else (int(v) % 2 if spec["vk"] == "i" else float(int(v) % 2)) for v in spec["vals"]]
    return {"mode": "arg", "spec": spec, "ax": ax, "op": draw(st.sampled_from(["argmin", "argmax"])),
            "axis_form": draw(st.sampled_from(["name", "pos", "None", "None"])), "skipna": draw(st.booleans())}


def strategy(tier):
    return st.one_of(cum_case(), diff_case(), diff_case(), arg_case(), arg_case())


def enumerate_cases(tier):
    for scheme in ("backward", "forward", "centered"):
        for n in (1, 2, 3):
            for keep in (False, True):
                for size in range(1, 6):
                    for vk in ("f", "i"):
                        for nd in (1, 2):
                            labs = [[5, 3, 4, 1, 2][:size]] if scheme != "centered" else [[0.5, 2.5, 1.0, 4.0, 3.0][:size]]
                            dims = ["t"]
                            if nd == 2:
                                labs = [["a", "b"]] + labs
                                dims = ["y", "t"]
                            ncell = size * (2 if nd == 2 else 1)
                            vals = [((j * j * 3 + j) % 11) - 5 for j in range(ncell)]
                            if vk == "f":
                                vals = [v / 4.0 for v in vals]
                            yield "diff-grid", {"mode": "diff", "spec": {"dims": dims, "labels": labs, "vk": vk, "vals": vals}, "ax": nd - 1,
                                                "axis_form": "name", "scheme": scheme, "n": n, "keepaxis": keep}
    # arg-extrema with skipna=True where the fibres hold NaN in every pattern (none ... all): each of the 16 patterns of a 4-label fibre next
    # to an all-NaN fibre and to a NaN-free one; NumPy refuses an all-NaN fibre - if an answer is given, the other fibres must be right
    for pat in range(16):
        for op in ("argmin", "argmax"):
            for ax in (0, 1):
                fib = [("NaN" if pat & (1 << i) else float((i * 3 + pat) % 5) - 2.0) for i in range(4)]
                cols = [fib, ["NaN"] * 4 if pat % 2 else [1.0, -1.0, 2.0, 0.5], [0.25, 3.0, -2.5, 1.0]]
                grid = [[cols[j][i] for j in range(3)] for i in range(4)]          # (4 labels along t) x (3 fibres)
                if ax == 0:
                    dims, labs, vals = ["t", "y"], [[7, 3, 9, 5], ["a", "b", "c"]], [x for row in grid for x in row]
                else:
                    dims, labs, vals = ["y", "t"], [["a", "b", "c"], [7, 3, 9, 5]], [cols[j][i] for j in range(3) for i in range(4)]
                yield "arg-skipna-nan-patterns", {"mode": "arg", "spec": {"dims": dims, "labels": labs, "vk": "f", "vals": vals}, "op": op, "skipna": True, "ax": ax, "axis_form": "name",
                                                  "whole": False}
    # arg-extrema along an axis whose int labels are a permutation of the positions 0..n-1 (labels that are valid positions but
    # differ from them): every permutation of range(4) x argmin / argmax x operated axis first / last x where the extremum sits
    import itertools
    for perm in itertools.permutations(range(4)):
        for op in ("argmin", "argmax"):
            for ax in (0, 1):
                for shift in (0, 1):
                    other = ["a", "b", "c"]
                    dims = ["t", "y"] if ax == 0 else ["y", "t"]
                    labs = [list(perm), other] if ax == 0 else [other, list(perm)]
                    grid = np.zeros((4, 3))
                    for j in range(3):
                        for i in range(4):
                            grid[i, j] = ((i + j + shift) * 5) % 4 + 0.25 * j      # the extremum of column j sits at a position depending on j
                    if op == "argmax":
                        grid = -grid
                    vals = (grid if ax == 0 else grid.T).ravel().tolist()
                    yield "arg-along-permuted-range-labels", {"mode": "arg", "spec": {"dims": dims, "labels": labs, "vk": "f", "vals": vals}, "ax": ax, "op": op,
                                                               "axis_form": "name" if shift else "pos", "skipna": False}


# ----------------------------------------------------------------------------------------------

def _axis_kw(form, spec, ax):
    nd = len(spec["dims"])
    if form == "name":
        return {"axis": spec["dims"][ax]}, ax
    if form == "pos":
        return {"axis": ax}, ax
    if form == "neg":
        return {"axis": ax - nd}, ax
    return {}, nd - 1   # default: last axis


def _same_values(got, exp, what, sig, tol=False):
    g = np.asarray(got)
    check(g.shape == exp.shape, "shape", {"what": what, "got": list(g.shape), "expected": list(exp.shape)}, sig)
    for x, y in zip(g.ravel().tolist(), np.asarray(exp).ravel().tolist()):
        if not core.same_scalar(x, y, tol=tol):
            raise Violation("value", {"what": what, "got": core.jsonable(g), "expected": core.jsonable(exp)}, sig=sig)


def _check_axes(res, dims, labels, what, sig):
    da = core.env.import_dimarray()
    check(isinstance(res, da.DimArray), "not-a-dimarray", {"what": what, "got": core.brief(res)}, sig)
    check(list(res.dims) == list(dims), "dims", {"what": what, "got": list(res.dims), "expected": list(dims)}, sig)
    for i, d in enumerate(dims):
        check(core.same_labels(res.axes[i].values, labels[i]), "labels", {"what": what, "dim": d, "got": core.jsonable(res.axes[i].values), "expected": core.jsonable(labels[i])}, sig)


def _tag_axes(a):
    """axes carry metadata and (numeric ones) a tolerance of their own: 'unchanged' includes them"""
    for i, ax_ in enumerate(a.axes):
        ax_.attrs["long_name"] = "axis %d" % i
        ax_.attrs["lst"] = [i]
        if ax_.values.dtype.kind in "if" and i % 2 == 0:
            ax_.tol = 1e-9


def _axes_kept(res, a, which, what, sig):
    for i in which:
        d = a.dims[i]
        check(core.attrs_equal(res.axes[d].attrs, a.axes[i].attrs) and res.axes[d].tol == a.axes[i].tol, "axis-not-unchanged",
              {"what": what, "dim": d, "attrs": core.jsonable(dict(res.axes[d].attrs)), "tol": res.axes[d].tol, "expected_attrs": core.jsonable(dict(a.axes[i].attrs)), "expected_tol": a.axes[i].tol}, sig)


def _cl_axis(cl, spec, ax, form):
    if form == "default":
        cl.add("axis:default")
    if ax != len(spec["dims"]) - 1:
        cl.add("axis:not-last")
    o = gen.order_of(spec["labels"][ax])
    if o in ("shuf", "dec"):
        cl.add("labels:unsorted")
    if core.label_kind(spec["labels"][ax]) == "s":
        cl.add("labels:str")
    return o


def run_cum(case):
    spec, op = case["spec"], case["op"]
    kw, ax = _axis_kw(case["axis_form"], spec, case["ax"])
    a = core.build(spec)
    _tag_axes(a)
    vals = core.spec_values(spec)
    snap = core.snapshot(a)       # (core.spec_values applies spec["dtype"]: the history-laden build has the narrow type too)
    what = "%s(%s) dims=%s labels=%s vals=%s dtype=%s" % (op, kw, spec["dims"], spec["labels"], spec["vals"], vals.dtype)
    sig = {"op": op}
    res = lib(lambda: getattr(a, op)(**kw), what=what, sig=sig)
    _check_axes(res, spec["dims"], spec["labels"], what, sig)
    _axes_kept(res, a, range(len(spec["dims"])), what, sig)
    if "axis" in kw:
        res_p = lib(lambda: getattr(a, op)(kw["axis"], False), what=what + " [axis, skipna by position]", sig=sig)
        core.expect_equal_arrays(res_p, res, what + " [positional vs keyword call]", sig=sig)
    with np.errstate(all="ignore"):
        exp = getattr(np, op)(vals, axis=ax)       # NumPy's own result, accumulator type included
    _same_values(res.values, exp, what, sig, tol=(op == "cumprod" and vals.dtype.kind == "f"))
    check(res.values.dtype == exp.dtype, "dtype", {"what": what, "got": str(res.values.dtype), "expected": str(exp.dtype)}, sig)
    core.expect_unchanged(a, snap, what, sig)
    cl = set([op] + (["cum:narrow-dtype"] if spec.get("dtype") else []))
    o = _cl_axis(cl, spec, ax, case["axis_form"])
    return {"classes": sorted(cl), "nontrivial": len(spec["dims"]) >= 2 or o in ("shuf", "dec")}


def run_diff(case):
    spec, scheme, n, keep = case["spec"], case["scheme"], case["n"], case["keepaxis"]
    kw, ax = _axis_kw(case["axis_form"], spec, case["ax"])
    a = core.build(spec)
    _tag_axes(a)
    snap = core.snapshot(a)
    vals = core.spec_values(spec)
    labs = spec["labels"][ax]
    size = len(labs)
    call_kw = dict(kw)
    if scheme != "backward":
        call_kw["scheme"] = scheme
    if n != 1:
        call_kw["n"] = n
    if keep:
        call_kw["keepaxis"] = True
    what = "diff(%s) dims=%s labels=%s vals=%s" % (call_kw, spec["dims"], spec["labels"], spec["vals"])
    sig = {"op": "diff", "scheme": scheme}
    cl = set(["diff:" + scheme])
    if scheme == "centered" and keep:
        core.must_raise(lambda: a.diff(**call_kw), (ValueError,), what, sig=sig)
        cl.add("diff:centered+keepaxis->ValueError")
    else:
        res = lib(lambda: a.diff(**call_kw), what=what, sig=sig)
        if "axis" in kw:
            # the documented parameter order diff(axis, scheme, keepaxis, n), all arguments given by position
            res_p = lib(lambda: a.diff(kw["axis"], scheme, bool(keep), n), what=what + " [arguments by position]", sig=sig)
            core.expect_equal_arrays(res_p, res, what + " [arguments by position vs keywords]", sig=sig)
            cl.add("diff:positional")
        _axes_kept(res, a, [i for i in range(len(spec["dims"])) if i != ax or keep], what, sig)
        d = np.diff(vals, n=n, axis=ax)
        k = min(n, size)
        if keep:
            pad_shape = list(vals.shape)
            pad_shape[ax] = k
            pad = np.full(pad_shape, np.nan)
            exp = np.concatenate([pad, d.astype(float)], axis=ax) if scheme == "backward" else np.concatenate([d.astype(float), pad], axis=ax)
            newlabs = list(labs)
            cl.add("diff:keepaxis")
            if spec["vk"] == "i":
                cl.add("diff:int-data-keepaxis")
                check(res.values.dtype.kind == "f", "int-not-promoted", {"what": what, "dtype": str(res.values.dtype)}, sig) if hasattr(res, "values") else None
        else:
            exp = d
            # without padding the differences have NumPy's type (differences of integers are integers)
            check(res.values.dtype == d.dtype, "dtype", {"what": what, "got": str(res.values.dtype), "expected": str(d.dtype)}, sig)
            if scheme == "backward":
                newlabs = list(labs)[n:]
            elif scheme == "forward":
                newlabs = list(labs)[:-n] if n else list(labs)
                if n >= size:
                    newlabs = []
            else:
                newlabs = [float(x) for x in labs]
                for _ in range(n):
                    newlabs = [0.5 * (p + q) for p, q in zip(newlabs[:-1], newlabs[1:])]
        labels = [list(l) for l in spec["labels"]]
        labels[ax] = newlabs
        _check_axes(res, spec["dims"], labels, what, sig)
        _same_values(res.values, exp, what, sig)
    core.expect_unchanged(a, snap, what, sig)
    if n >= size:
        cl.add("diff:n>=size")
    o = _cl_axis(cl, spec, ax, case["axis_form"])
    nontrivial = n >= 2 or size == 1 or o in ("shuf", "dec") or (len(spec["dims"]) >= 2 and ax != len(spec["dims"]) - 1)
    return {"classes": sorted(cl), "nontrivial": bool(nontrivial)}


def _extreme(xs, op, skipna):
    xs = [core.pyscalar(x) for x in xs]
    if any(core.isnan(x) for x in xs):
        if not skipna:
            return float("nan")
        xs = [x for x in xs if not core.isnan(x)]
        if not xs:
            return None   # all-NaN with skipna
    return min(xs) if op == "argmin" else max(xs)


def run_arg(case):
    da = core.env.import_dimarray()
    spec, op, skipna = case["spec"], case["op"], case["skipna"]
    dims, labels = spec["dims"], spec["labels"]
    a = core.build(spec)
    snap = core.snapshot(a)
    m = core.model_of_spec(spec)
    kw = {"skipna": True} if skipna else {}
    cl = set()
    sig = {"op": op, "skipna": skipna}
    anynan = any(v == "NaN" for v in spec["vals"])
    if anynan:
        cl.add("arg:nan")
    finite = [v for v in spec["vals"] if v != "NaN"]
    if len(finite) != len(set(finite)):
        cl.add("arg:ties")
    if case["axis_form"] == "None":
        what = "%s(%s) dims=%s labels=%s vals=%s" % (op, kw, dims, labels, spec["vals"])
        ext = _extreme(list(m.cells.values()), op, skipna)
        if ext is None:
            r = lib(lambda: getattr(a, op)(**kw), expect=(ValueError,), what=what, sig=sig)
            if isinstance(r, core.Raised):
                cl.add("arg:all-nan-raises")
                return {"classes": sorted(cl), "nontrivial": True}
        res = lib(lambda: getattr(a, op)(**kw), what=what, sig=sig)
        check(isinstance(res, tuple) and len(res) == len(dims), "arg-result-not-a-label-tuple", {"what": what, "got": core.jsonable(res)}, sig)
        key = tuple(core.canon_label(x) for x in res)
        check(key in m.cells, "arg-result-not-labels", {"what": what, "got": core.jsonable(res)}, sig)
        if ext is not None:
            check(core.same_scalar(m.cells[key], ext), "arg-not-at-extremum", {"what": what, "got_labels": core.jsonable(res), "value_there": core.jsonable(m.cells[key]), "extremum": core.jsonable(ext)}, sig)
        # the statement's own formulation: indexing the array with the returned labels yields its minimum / maximum
        if all(len(l) > 0 for l in labels):
            v = lib(lambda: a[tuple(res)] if len(dims) > 1 else a[res[0]], what="a[%s()] " % op + what, sig=sig)
            ref = lib(lambda: (a.min(**kw) if op == "argmin" else a.max(**kw)), what="min/max " + what, sig=sig)
            check(core.same_scalar(v, ref), "a[arg] != extremum", {"what": what, "a[arg]": core.jsonable(v), "extremum": core.jsonable(ref)}, sig)
        cl.add("arg:whole")
    else:
        ax = case["ax"]
        d = dims[ax]
        kw2 = dict(kw, axis=d if case["axis_form"] == "name" else ax)
        what = "%s(%s) dims=%s labels=%s vals=%s" % (op, kw2, dims, labels, spec["vals"])
        remaining = [x for x in dims if x != d]
        fibres = {}
        for coord in m.coords():
            c = dict(zip(dims, coord))
            fibres.setdefault(tuple(c[x] for x in remaining), {})[c[d]] = m.cells[coord]
        exts = {k: _extreme(list(f.values()), op, skipna) for k, f in fibres.items()}
        if any(e is None for e in exts.values()):
            r = lib(lambda: getattr(a, op)(**kw2), expect=(ValueError,), what=what, sig=sig)
            cl.add("arg:all-nan-fibre")
            if isinstance(r, core.Raised):
                return {"classes": sorted(cl), "nontrivial": True}
            res = r
        else:
            res = lib(lambda: getattr(a, op)(**kw2), what=what, sig=sig)
        if not remaining:
            cl.add("arg:1d-axis")
            check(not isinstance(res, da.DimArray) or res.ndim == 0, "scalar-label-expected", {"what": what, "got": core.brief(res)}, sig)
            lab = core.canon_label(res.values.item() if isinstance(res, da.DimArray) else res)
            check(lab in fibres[()], "arg-result-not-a-label", {"what": what, "got": core.jsonable(lab)}, sig)
            if exts[()] is not None:
                check(core.same_scalar(fibres[()][lab], exts[()]), "arg-not-at-extremum", {"what": what, "got_label": core.jsonable(lab)}, sig)
        else:
            _check_axes(res, remaining, [labels[dims.index(x)] for x in remaining], what, sig)
            mr = core.model_of(res)
            for key, lab in mr.cells.items():
                lab = core.canon_label(lab)
                check(lab in fibres[key], "arg-result-not-a-label", {"what": what, "at": core.jsonable(key), "got": core.jsonable(lab), "labels": core.jsonable(labels[ax])}, sig)
                if exts[key] is not None:
                    check(core.same_scalar(fibres[key][lab], exts[key]), "arg-not-at-extremum",
                          {"what": what, "at": core.jsonable(key), "got_label": core.jsonable(lab), "value_there": core.jsonable(fibres[key][lab]), "extremum": core.jsonable(exts[key])}, sig)
        cl.add("arg:axis")
        _cl_axis(cl, spec, ax, case["axis_form"])
    core.expect_unchanged(a, snap, "arg", sig)
    return {"classes": sorted(cl), "nontrivial": "arg:ties" in cl or "arg:nan" in cl or len(dims) >= 2}


def run_case(case):
    return {"cum": run_cum, "diff": run_diff, "arg": run_arg}[case["mode"]](case)
