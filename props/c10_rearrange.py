"""C10 - Rearranging dimensions preserves every element's label coordinates.

Statement: "transpose, T, swapaxes, rollaxis, newaxis, squeeze, repeat, broadcast and broadcast_arrays change
only the arrangement of dimensions: the result's dims are the requested permutation, insertion or removal,
every axis travels with its data (same labels, same order), and the element at any label coordinate of the
result equals the element at the corresponding coordinate of the input, replicated along newly introduced or
repeated dimensions.  Dimensions may be referred to by name or by position interchangeably, and the array's
metadata is kept."

Oracle: for every result coordinate, the input coordinate obtained by dropping introduced / repeated dimensions
(dict model); dims and labels compared exactly; inverse compositions must give the input back.
"""
import itertools
from collections import OrderedDict

import numpy as np
from hypothesis import strategies as st

from vlib import core, gen
from vlib.core import lib, check, Violation

ID = "C10"
TITLE = "Rearranging dimensions preserves every element's label coordinates"
RULE = ("generated arrays of 0-4 dims whose axes differ in kind and length, and deliberately square arrays with identical label vectors; for "
        "each array ALL permutations for transpose (names, positions, mixed, list and varargs, T for ndim <= 2), all axis pairs for swapaxes, "
        "all (axis, start) for rollaxis (also counted from the end), all insertion positions for newaxis (with / without values), squeeze (all / one axis), repeat (int, "
        "labels, Axis), generated broadcast targets (DimArray, list of Axis, OrderedDict; extra and reordered dims; target axes of length 0), broadcast_arrays of 2-3 "
        "arrays, and compositions (transpose then inverse, newaxis then squeeze, swapaxes twice, rollaxis vs transpose).  A sub-case is "
        "non-trivial when ndim >= 2 and the rearrangement is not the identity.  Every axis carries metadata of its own, which must arrive with it.")
ASSUMPTIONS = [
    "oracle: dict model, coordinates by label; labels compared exactly",
    "T is exercised for ndim <= 2 only (documented: transpose() without arguments needs explicit dims for ndim > 2)",
    "broadcast targets contain all of the array's non-singleton dimensions with the same labels (documented usage)",
]
MANDATORY = ["swapaxes:negative-positions", "rollaxis:negative-positions", "broadcast:empty-target-axis", "broadcast:omits-singleton", "transpose", "swapaxes", "rollaxis", "newaxis", "newaxis:values", "squeeze", "repeat", "broadcast", "broadcast_arrays",
             "square-equal-labels", "composition", "ndim:4", "ndim:0"]

ATTRS = {"units": "m", "hist": [1, {"k": 2}], "_FillValue": -999, "max": 3}        # (any key may be metadata: underscore names, names of methods)


def budget(tier):
    return {"quick": dict(examples=400, shards=1), "thorough": dict(examples=3000, shards=16)}[tier]


@st.composite
def case_st(draw):
    square = draw(st.integers(0, 3)) == 0
    if square:
        nd = draw(st.integers(2, 4))
        dims = list(draw(st.permutations(draw(gen.names_pool()))))[:nd]
        n = draw(st.integers(1, 3))
        l = draw(gen.labels(n))
        spec = {"dims": dims, "labels": [list(l) for _ in dims], "vk": "f", "base": draw(st.integers(0, 9))}
    else:
        spec = draw(gen.array_spec(min_dims=0, max_dims=4, min_size=1, max_size=3, vks="fi"))
    # singleton dims are needed for squeeze / repeat: force some
    for i in range(len(spec["dims"])):
        if draw(st.integers(0, 4)) == 0:
            spec["labels"][i] = spec["labels"][i][:1]
    extra = [d for d in ["p", "q"] if draw(st.booleans())]
    return {"spec": spec, "square": square, "extra": extra, "extra_labels": [draw(gen.labels(draw(st.integers(1, 3)))) for _ in extra], "empty_target": draw(st.integers(0, 5)) == 0,
            "border": draw(st.integers(0, 1000)), "rep_labels": draw(gen.labels(draw(st.integers(1, 3))))}


def strategy(tier):
    return case_st()


# ----------------------------------------------------------------------------------------------

def expect(res, src, exp_dims, exp_labels, new_dims, what, sig, attrs=True, placeholder_ok=True, src_dtype=None):
    src_dtype = src_dtype if src_dtype is not None else _SRC_DTYPE.get("dtype")
    """result must hold src's cell at the coordinate restricted to src's dims (dims in new_dims are dropped/replaced).
    An introduced dimension whose target is a single label may keep newaxis' placeholder label None (the
    statement only speaks of axes that travel with data)."""
    exp_labels = [list(l) for l in exp_labels]
    if placeholder_ok and hasattr(res, "dims") and tuple(res.dims) == tuple(exp_dims):
        for i, d in enumerate(exp_dims):
            if d in new_dims and d not in src.dims and len(exp_labels[i]) == 1 and res.axes[i].size == 1 and res.axes[i].values[0] is None:
                exp_labels[i] = [None]
    single = {d: core.canon_label(src.labels[i][0]) for i, d in enumerate(src.dims) if d in new_dims and len(src.labels[i]) == 1}

    def val(c):
        key = tuple(single[d] if d in single else core.canon_label(c[d]) for d in src.dims)
        return src.cells[key]
    core.expect_array(res, exp_dims, exp_labels, val, what, sig=sig)
    if src_dtype is not None:
        # rearranging never converts the data (7 stays an int, True stays a bool)
        check(res.values.dtype == src_dtype, "dtype", {"what": what, "got": str(res.values.dtype), "expected": str(src_dtype)}, sig)
    if attrs:
        check(core.attrs_equal(res.attrs, ATTRS), "attrs-not-kept", {"what": what, "got": core.jsonable(res.attrs)}, sig)
    # every axis travels with its data - whole, i.e. with the metadata it carries
    for d in res.dims:
        if d in src.dims and d not in new_dims:
            check(core.attrs_equal(res.axes[d].attrs, {"tag": "of-" + d}), "axis-metadata-not-kept", {"what": what, "dim": d, "got": core.jsonable(res.axes[d].attrs)}, sig)


_SRC_DTYPE = {}


def run_case(case):
    da = core.env.import_dimarray()
    spec = case["spec"]
    dims, labels = list(spec["dims"]), [list(l) for l in spec["labels"]]
    nd = len(dims)
    a = core.build(spec, attrs=ATTRS)
    for ax_ in a.axes:
        ax_.attrs["tag"] = "of-" + ax_.name
    snap = core.snapshot(a)
    _SRC_DTYPE["dtype"] = a.values.dtype
    src = core.model_of_spec(spec)
    sub = []
    cl = set(["ndim:%d" % nd])
    if case["square"] and nd >= 2 and len(labels[0]) > 1:
        cl.add("square-equal-labels")
    lab_of = dict(zip(dims, labels))

    def done(tag, key, nontrivial):
        cl.add(tag)
        sub.append((core.digest([spec, tag, key]), bool(nontrivial and nd >= 2)))

    only = case.get("only")

    def want(tag):
        return only is None or only == tag

    def guard(tag, f):
        if not want(tag):
            return
        try:
            f()
        except Violation as v:
            v.case = dict(case, only=tag)
            raise

    # ---- transpose ----------------------------------------------------------------------------
    def t_transpose():
        for perm in itertools.permutations(range(nd)):
            pd = [dims[i] for i in perm]
            forms = [("names-varargs", lambda: a.transpose(*pd)), ("names-list", lambda: a.transpose(list(pd))),
                     ("positions", lambda: a.transpose(*perm)), ("positions-tuple", lambda: a.transpose(tuple(perm))),
                     ("mixed", lambda: a.transpose(*[p if k % 2 else dims[p] for k, p in enumerate(perm)])),
                     ("negative-positions", lambda: a.transpose(*[p - nd for p in perm]))]
            # positions written from the end where that makes the written sequence increasing, e.g. (-1, 0, 1) for the rotation (2, 0, 1)
            for signs in itertools.product((0, 1), repeat=nd):
                w = [p - nd if sg else p for p, sg in zip(perm, signs)]
                if any(signs) and not all(signs) and all(w[i] < w[i + 1] for i in range(nd - 1)):
                    forms.append(("mixed-sign-positions %s" % (w,), (lambda w=w: a.transpose(*w))))
            if nd == 0:
                forms = [("noargs", lambda: a.transpose())]
            for fname, f in forms:
                what = "transpose[%s](%s) dims=%s labels=%s" % (fname, pd, dims, labels)
                res = lib(f, what=what, sig={"op": "transpose"})
                expect(res, src, pd, [lab_of[d] for d in pd], [], what, {"op": "transpose"})
            # inverse composition
            inv = [list(perm).index(i) for i in range(nd)]
            if nd:
                back = lib(lambda: a.transpose(*perm).transpose(*inv), what="transpose(p).transpose(p^-1) p=%s" % (perm,), sig={"op": "transpose"})
                expect(back, src, dims, labels, [], "transpose(p).transpose(p^-1) p=%s dims=%s" % (perm, dims), {"op": "transpose"})
                cl.add("composition")
            done("transpose", list(perm), list(perm) != list(range(nd)))
        if nd <= 2:
            what = "T dims=%s" % dims
            res = lib(lambda: a.T, what=what, sig={"op": "T"})
            expect(res, src, dims[::-1], labels[::-1], [], what, {"op": "T"})
            done("T", 0, nd == 2)
    guard("transpose", t_transpose)

    # ---- swapaxes -----------------------------------------------------------------------------
    def t_swap():
        for i, j in itertools.product(range(nd), repeat=2):
            pd = list(dims)
            pd[i], pd[j] = pd[j], pd[i]
            for fname, f in (("names", lambda: a.swapaxes(dims[i], dims[j])), ("positions", lambda: a.swapaxes(i, j)), ("mixed", lambda: a.swapaxes(dims[i], j))):
                what = "swapaxes[%s](%s, %s) dims=%s labels=%s" % (fname, dims[i], dims[j], dims, labels)
                res = lib(f, what=what, sig={"op": "swapaxes"})
                expect(res, src, pd, [lab_of[d] for d in pd], [], what, {"op": "swapaxes"})
            # negative positions count from the end (NumPy's convention, as in transpose and rollaxis)
            for fname, f in (("negative positions", lambda: a.swapaxes(i - nd, j - nd)), ("negative position, name", lambda: a.swapaxes(i - nd, dims[j])),
                             ("position, negative position", lambda: a.swapaxes(i, j - nd))):
                what = "swapaxes[%s](%s, %s) dims=%s labels=%s" % (fname, dims[i], dims[j], dims, labels)
                res = lib(f, what=what, sig={"op": "swapaxes"})
                expect(res, src, pd, [lab_of[d] for d in pd], [], what, {"op": "swapaxes"})
                cl.add("swapaxes:negative-positions")
            back = lib(lambda: a.swapaxes(i, j).swapaxes(i, j), what="swapaxes twice", sig={"op": "swapaxes"})
            expect(back, src, dims, labels, [], "swapaxes(%d,%d) twice dims=%s" % (i, j, dims), {"op": "swapaxes"})
            done("swapaxes", [i, j], i != j)
    guard("swapaxes", t_swap)

    # ---- rollaxis -----------------------------------------------------------------------------
    def t_roll():
        for i in range(nd):
            for start in range(0, nd + 1):
                order = list(np.rollaxis(np.empty([1] * nd), i, start).shape)  # only used to size; real order below
                perm = list(range(nd))
                perm.remove(i)
                perm.insert(start if start <= i else start - 1, i)
                pd = [dims[p] for p in perm]
                for fname, f in (("name", lambda: a.rollaxis(dims[i], start)), ("position", lambda: a.rollaxis(i, start))):
                    what = "rollaxis[%s](%s, start=%d) dims=%s labels=%s" % (fname, dims[i], start, dims, labels)
                    res = lib(f, what=what, sig={"op": "rollaxis"})
                    expect(res, src, pd, [lab_of[d] for d in pd], [], what, {"op": "rollaxis"})
                # positions counted from the end (NumPy's convention): the same permutation
                for fname, f in (("negative axis", lambda: a.rollaxis(i - nd, start)),) + ((("negative start", lambda: a.rollaxis(i, start - nd)), ("both negative", lambda: a.rollaxis(i - nd, start - nd)),
                                                                                            ("name, negative start", lambda: a.rollaxis(dims[i], start - nd))) if start < nd else ()):
                    what = "rollaxis[%s](%s, start=%d) dims=%s labels=%s" % (fname, dims[i], start, dims, labels)
                    res = lib(f, what=what, sig={"op": "rollaxis"})
                    expect(res, src, pd, [lab_of[d] for d in pd], [], what, {"op": "rollaxis"})
                    cl.add("rollaxis:negative-positions")
                done("rollaxis", [i, start], perm != list(range(nd)))
            if nd:
                what = "rollaxis(%s) default start dims=%s" % (dims[i], dims)
                res = lib(lambda: a.rollaxis(dims[i]), what=what, sig={"op": "rollaxis"})
                pd = [dims[i]] + [d for d in dims if d != dims[i]]
                expect(res, src, pd, [lab_of[d] for d in pd], [], what, {"op": "rollaxis"})
    guard("rollaxis", t_roll)

    # ---- newaxis (+ squeeze back) -------------------------------------------------------------
    def t_newaxis():
        vals_new = case["rep_labels"]
        for pos in list(range(nd + 1)) + [-1]:
            p = nd if pos == -1 else pos
            pd = dims[:p] + ["n"] + dims[p:]
            what = "newaxis('n', pos=%d) dims=%s labels=%s" % (pos, dims, labels)
            res = lib(lambda: a.newaxis("n", pos=pos), what=what, sig={"op": "newaxis"})
            da_ = core.env.import_dimarray()
            check(isinstance(res, da_.DimArray) and list(res.dims) == pd, "dims", {"what": what, "got": core.brief(res), "expected": pd}, {"op": "newaxis"})
            check(res.axes[p].size == 1, "newaxis-not-singleton", {"what": what}, {"op": "newaxis"})
            pl = labels[:p] + [[res.axes[p].values[0]]] + labels[p:]
            expect(res, src, pd, pl, ["n"], what, {"op": "newaxis"})
            back = lib(lambda: res.squeeze("n"), what="newaxis->squeeze('n') " + what, sig={"op": "squeeze"})
            if nd:
                expect(back, src, dims, labels, [], "newaxis->squeeze " + what, {"op": "squeeze"})
                cl.add("composition")
            else:
                check(core.same_scalar(np.asarray(back.values if hasattr(back, "values") else back).item(), src.cells[()]), "value", {"what": what}, {"op": "squeeze"})
            done("newaxis", [pos], True)
            # with values: repeated along the new axis
            for vform, v in (("list", list(vals_new)), ("array", core.label_array(vals_new))):
                what = "newaxis('n', values=%s as %s, pos=%d) dims=%s labels=%s" % (vals_new, vform, pos, dims, labels)
                res = lib(lambda: a.newaxis("n", values=v, pos=pos), what=what, sig={"op": "newaxis"})
                # labels given to newaxis explicitly must be the labels of the new axis, also when there is just one
                expect(res, src, pd, labels[:p] + [list(vals_new)] + labels[p:], ["n"], what, {"op": "newaxis"}, placeholder_ok=False)
            donor = da.Axis(core.label_array(vals_new), "donor_")
            what = "newaxis('n', values=Axis named 'donor_' %s, pos=%d) dims=%s labels=%s" % (vals_new, pos, dims, labels)
            res = lib(lambda: a.newaxis("n", values=donor, pos=pos), what=what, sig={"op": "newaxis"})
            # (which of the two names the new dimension gets is left open - the library takes the Axis' own; the donor itself must stay what it was)
            nm_ = res.dims[p] if hasattr(res, "dims") and len(res.dims) == len(pd) else None
            check(nm_ in ("n", "donor_"), "dims", {"what": what, "got": core.brief(res)}, {"op": "newaxis"})
            expect(res, src, dims[:p] + [nm_] + dims[p:], labels[:p] + [list(vals_new)] + labels[p:], [nm_], what, {"op": "newaxis"}, placeholder_ok=False)
            check(donor.name == "donor_" and core.same_labels(donor.values, vals_new), "argument-modified", {"what": what, "donor_name_now": donor.name}, {"op": "newaxis"})
            done("newaxis:values", [pos], True)
    guard("newaxis", t_newaxis)

    # ---- squeeze ------------------------------------------------------------------------------
    def t_squeeze():
        singles = [d for d in dims if len(lab_of[d]) == 1]
        keep = [d for d in dims if d not in singles]
        what = "squeeze() dims=%s labels=%s" % (dims, labels)
        res = lib(lambda: a.squeeze(), what=what, sig={"op": "squeeze"})
        if keep:
            expect(res, src, keep, [lab_of[d] for d in keep], singles, what, {"op": "squeeze"})
        else:
            v = res.values if hasattr(res, "values") else res
            check(np.ndim(v) == 0 and core.same_scalar(np.asarray(v).item(), list(src.cells.values())[0]), "value", {"what": what, "got": core.brief(res)}, {"op": "squeeze"})
        done("squeeze", ["all"], bool(singles))
        for d in singles:
            k2 = [x for x in dims if x != d]
            for fname, f in (("name", lambda: a.squeeze(d)), ("position", lambda: a.squeeze(dims.index(d)))):
                what = "squeeze[%s](%s) dims=%s labels=%s" % (fname, d, dims, labels)
                res = lib(f, what=what, sig={"op": "squeeze"})
                if k2:
                    expect(res, src, k2, [lab_of[x] for x in k2], [d], what, {"op": "squeeze"})
            done("squeeze", [d], True)
    guard("squeeze", t_squeeze)

    # ---- repeat -------------------------------------------------------------------------------
    def t_repeat():
        singles = [d for d in dims if len(lab_of[d]) == 1]
        newl = case["rep_labels"]
        for d in singles:
            i = dims.index(d)
            for fname, f, exp_l in (("int", lambda: a.repeat(len(newl), axis=d), list(range(len(newl)))),
                                    ("labels-by-name", lambda: a.repeat(core.label_array(newl), axis=d), list(newl)),
                                    ("labels-by-position", lambda: a.repeat(core.label_array(newl), axis=i), list(newl)),
                                    ("Axis", lambda: a.repeat(da.Axis(core.label_array(newl), d)), list(newl))):
                what = "repeat[%s](%s, axis=%s) dims=%s labels=%s" % (fname, newl, d, dims, labels)
                res = lib(f, what=what, sig={"op": "repeat"})
                pl = [exp_l if x == d else lab_of[x] for x in dims]
                expect(res, src, dims, pl, [d], what, {"op": "repeat"})
            # an Axis borrowed from another array (another name): the labels count, the dimension keeps its name, and the donor stays what it was
            donor = da.Axis(core.label_array(newl), "donor_")
            donor.attrs["units"] = "donor-units"
            what = "repeat(values=Axis named 'donor_' %s, axis=%s) dims=%s labels=%s" % (newl, d, dims, labels)
            res = lib(lambda: a.repeat(donor, axis=d), what=what, sig={"op": "repeat"})
            # (the repeated dimension ends up with the Axis' own name or keeps its own: left open, see DESIGN 10.2)
            nm_ = res.dims[i] if hasattr(res, "dims") and len(res.dims) == nd else None
            check(nm_ in (d, "donor_"), "dims", {"what": what, "got": core.brief(res)}, {"op": "repeat"})
            src_r = core.L([nm_ if x == d else x for x in src.dims], src.labels, src.cells) if nm_ != d else src
            expect(res, src_r, [nm_ if x == d else x for x in dims], [list(newl) if x == d else lab_of[x] for x in dims], [nm_], what, {"op": "repeat"})
            check(donor.name == "donor_" and core.same_labels(donor.values, newl) and dict(donor.attrs) == {"units": "donor-units"}, "argument-modified",
                  {"what": what, "donor_name_now": donor.name, "donor_labels_now": core.jsonable(donor.values)}, {"op": "repeat"})
            done("repeat", [d], True)
        if not singles and nd:
            core.must_raise(lambda: a.repeat(2, axis=0), (ValueError,), "repeat on a non-singleton axis", sig={"op": "repeat"})
    guard("repeat", t_repeat)

    # ---- broadcast ----------------------------------------------------------------------------
    def t_broadcast():
        rnd = case["border"]
        # singleton dimensions of the array may be left out of the target (they are squeezed away), others must be kept
        omitted = [d for k, d in enumerate(dims) if len(lab_of[d]) == 1 and (rnd >> (k + 3)) & 1]
        tdims = [d for d in dims if d not in omitted] + list(case["extra"])
        order = list(itertools.permutations(range(len(tdims))))[rnd % max(1, len(list(itertools.permutations(range(len(tdims)))))) if len(tdims) <= 5 else 0]
        tdims = [tdims[i] for i in order]
        tl = {}
        for d in tdims:
            if d in dims:
                tl[d] = lab_of[d] if len(lab_of[d]) > 1 or rnd % 2 else list(case["rep_labels"])   # singleton dims may be repeated to new labels
            else:
                tl[d] = case["extra_labels"][case["extra"].index(d)]
        if case.get("empty_target"):
            # a target axis without any label (length 0 is a length): a new dimension, or one that the array holds as a singleton
            for d in tdims[::-1]:
                if d not in dims or len(lab_of[d]) == 1:
                    tl[d] = []
                    cl.add("broadcast:empty-target-axis")
                    break
        taxes = [da.Axis(core.label_array(tl[d]) if tl[d] else np.array([], dtype=float), d) for d in tdims]
        targets = [("list-of-Axis", list(taxes)), ("DimArray", da.DimArray(np.zeros([len(tl[d]) for d in tdims]), axes=[ax.copy() for ax in taxes])),
                   ("OrderedDict", OrderedDict((d, core.label_array(tl[d]) if tl[d] else np.array([], dtype=float)) for d in tdims))]
        newd = [d for d in tdims if d not in dims or (len(lab_of[d]) == 1 and len(tl[d]) != 1)] + omitted
        if omitted:
            cl.add("broadcast:omits-singleton")
        for tname, t in targets:
            what = "broadcast(%s dims=%s labels=%s) on dims=%s labels=%s" % (tname, tdims, [tl[d] for d in tdims], dims, labels)
            res = lib(lambda: a.broadcast(t), what=what, sig={"op": "broadcast"})
            exp_labels = []
            for d in tdims:
                if d in dims and len(lab_of[d]) == 1 and len(tl[d]) == 1:
                    exp_labels.append(lab_of[d])     # singleton stays singleton: keeps its own label
                else:
                    exp_labels.append(tl[d])
            expect(res, src, tdims, exp_labels, newd, what, {"op": "broadcast"})
        done("broadcast", [tdims], True)
    guard("broadcast", t_broadcast)

    # ---- broadcast_arrays ---------------------------------------------------------------------
    def t_barrays():
        # b: shares some dims (same labels), adds the extra dims; c: 0-d
        bd = [d for k, d in enumerate(dims) if (case["border"] >> k) & 1] + list(case["extra"])
        bd = bd[::-1]
        bl = [lab_of[d] if d in dims else case["extra_labels"][case["extra"].index(d)] for d in bd]
        bspec = {"dims": bd, "labels": bl, "vk": "f", "base": 100}
        b = core.build(bspec)
        for ax_ in b.axes:
            ax_.attrs["tag"] = "of-" + ax_.name
        msrc_b = core.model_of_spec(bspec)
        arrays = [a, b] + ([da.DimArray(np.array(7.5))] if case["border"] % 3 == 0 else [])
        what = "broadcast_arrays(a dims=%s, b dims=%s%s) labels a=%s b=%s" % (dims, bd, ", 0-d" if len(arrays) == 3 else "", labels, bl)
        res = lib(lambda: da.broadcast_arrays(*arrays), what=what, sig={"op": "broadcast_arrays"})
        check(len(res) == len(arrays), "count", {"what": what}, {"op": "broadcast_arrays"})
        alld = list(dims) + [d for d in bd if d not in dims]
        all_l = [lab_of[d] if d in dims else bl[bd.index(d)] for d in alld]
        if alld:
            expect(res[0], src, alld, all_l, [d for d in alld if d not in dims], what + " [0]", {"op": "broadcast_arrays"})
            expect(res[1], msrc_b, alld, all_l, [d for d in alld if d not in bd], what + " [1]", {"op": "broadcast_arrays"}, attrs=False, src_dtype=b.values.dtype)
            if len(arrays) == 3:
                expect(res[2], core.L((), [], {(): 7.5}), alld, all_l, alld, what + " [2]", {"op": "broadcast_arrays"}, attrs=False, src_dtype=np.dtype(float))
        done("broadcast_arrays", [bd], True)
    guard("broadcast_arrays", t_barrays)

    core.expect_unchanged(a, snap, "rearrangements", {"op": "operand"})
    return {"classes": sorted(cl), "sub": sub}
