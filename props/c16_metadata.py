"""C16 - Metadata: attribute routing and propagation rules.

Statement: "On DimArray, Dataset and Axis, setting, getting or deleting a public attribute that is not a class
member reads and writes the attrs dictionary, except that a name equal to a dimension reads and writes that
axis' labels; names starting with an underscore or naming class members (values, axes, dims, shape, ...) never
enter attrs, and entries stored in attrs under such names are neither reachable nor deletable through attribute
syntax.  An array's metadata is carried over unchanged by indexing, reductions and other along-axis transforms,
reshaping, reindexing, sorting and interpolation, and an axis' metadata survives slicing and reindexing of that
axis, whereas arithmetic, comparisons, stack and concatenate return arrays without the operands' metadata."

Oracle: a three-branch routing model written from the statement; a keeps / drops table over the operation
catalogue (vlib/ops.py) with generated attrs dictionaries.
"""
import copy as _copy

import numpy as np
from hypothesis import strategies as st

from vlib import core, gen, ops
from vlib.core import lib, check, Violation

ID = "C16"
TITLE = "Metadata: attribute routing and propagation rules"
RULE = ("enumerated: for each of DimArray, Dataset, Axis every name class (fresh public identifiers, underscore-prefixed names, every public "
        "class member from dir(cls), dimension names, constructor parameter names) x actions (set, get, hasattr, del by attribute syntax; "
        "direct attrs[name] write followed by attribute get / del; attrs setter / deleter) x value types (str, int, float, list, dict, None, "
        "ndarray); generated: operand sets as in C15 with generated attrs dictionaries (incl. keys named like constructor parameters) on the "
        "array and on its axes, every catalogue entry flagged keeps / drops by the statement.  Non-trivial: a reserved or dimension-colliding "
        "name, or a non-empty attrs dict on a keeps / drops operation.")
ASSUMPTIONS = [
    "routing model: reserved (underscore / class member) -> never in attrs; dimension name -> axis labels; otherwise attrs[name]",
    "setting a class member through attribute syntax is only required not to touch attrs (what the member does with the value is its own business)",
    "percentile / N-d mask / put / fillna results are not in the statement's lists: not asserted",
]
MANDATORY = ["cls:DimArray", "cls:Dataset", "cls:Axis", "name:public", "name:underscore", "name:member", "name:dimension", "name:ctor-param",
             "prop:keeps", "prop:drops", "prop:axis-attrs", "prop:second-call-after-metadata-change", "attrs:ctor-param-key"]

VALUES = ["text", 3, 2.5, [1, 2], {"k": [1]}, None]
PUBLIC = ["units", "long_name", "my_meta", "x0", "History"]
UNDERSCORE = ["_private", "__dunderish", "_values_", "_attrs2"]
CTOR = ["dtype", "copy", "labels", "dims", "values", "axes", "name", "tol", "_indexing"]


def budget(tier):
    return {"quick": dict(examples=150, shards=1), "thorough": dict(examples=2500, shards=16)}[tier]


# ----------------------------------------------------------------------------------------------
# routing (enumerated)
# ----------------------------------------------------------------------------------------------

def make(clsname):
    da = core.env.import_dimarray()
    if clsname == "DimArray":
        return core.build({"dims": ["time", "lat"], "labels": [[3, 1, 2], ["a", "b"]], "vk": "f", "base": 1})
    if clsname == "Axis":
        return da.Axis(np.array([3, 1, 2]), "time")
    ds = da.Dataset()
    ds["v"] = core.build({"dims": ["time", "lat"], "labels": [[3, 1, 2], ["a", "b"]], "vk": "f", "base": 1})
    ds["w"] = core.build({"dims": ["time"], "labels": [[3, 1, 2]], "vk": "f", "base": 9})
    return ds


def members(clsname):
    da = core.env.import_dimarray()
    cls = {"DimArray": da.DimArray, "Dataset": da.Dataset, "Axis": da.Axis}[clsname]
    return sorted(n for n in dir(cls) if not n.startswith("_"))


def enumerate_cases(tier):
    for clsname in ("DimArray", "Dataset", "Axis"):
        names = [("public", n) for n in PUBLIC] + [("underscore", n) for n in UNDERSCORE] + [("member", n) for n in members(clsname)]
        if clsname != "Axis":
            names += [("dimension", "time"), ("dimension", "lat")]
        names += [("ctor-param", n) for n in CTOR]
        for kind, name in names:
            yield "routing:%s" % clsname, {"mode": "route", "cls": clsname, "kind": kind, "name": name}


def state(obj, clsname):
    """everything the routing actions must not disturb (apart from what they are meant to change)"""
    s = {"attrs": _copy.deepcopy(dict(obj.attrs))}
    if clsname == "Axis":
        s["labels"] = obj.values.tolist()
        s["axname"] = obj.name
    else:
        s["dims"] = tuple(obj.dims)
        s["labels"] = [l.tolist() for l in obj.labels]
    return s


def run_route(case):
    da = core.env.import_dimarray()
    clsname, kind, name = case["cls"], case["kind"], case["name"]
    cls = {"DimArray": da.DimArray, "Dataset": da.Dataset, "Axis": da.Axis}[clsname]
    is_member = hasattr(cls, name)
    exclude = list(getattr(cls, "__metadata_exclude__", []))
    reserved = name.startswith("_") or is_member or name in exclude
    probe = make(clsname)
    is_dim = (clsname != "Axis") and (name in probe.dims) and not reserved
    sub = []
    cl = set(["cls:" + clsname, "name:" + kind])
    sig = {"cls": clsname, "branch": "reserved" if reserved else ("dimension" if is_dim else "attrs")}

    for vi, value in enumerate(VALUES + [np.array([1.5, 2.5])]):
        what = "%s.%s (%s, branch %s) value=%r" % (clsname, name, kind, sig["branch"], value)
        obj = make(clsname)
        before = state(obj, clsname)
        # ---------------- set through attribute syntax
        if reserved:
            try:
                import contextlib
                with contextlib.redirect_stdout(core._DEVNULL), np.errstate(all="ignore"):
                    setattr(obj, name, value)
            except Exception:
                pass
            try:
                now = dict(obj.attrs)
            except Exception:
                now = None     # e.g. 'attrs' / '_attrs' themselves were overwritten: nothing to compare against
            if now is not None and name not in ("attrs", "_attrs"):
                check(name not in now, "reserved-name-entered-attrs", {"what": what, "attrs": core.jsonable(now)}, sig)
            # entries stored directly in attrs under a reserved name: unreachable and undeletable by attribute syntax
            obj = make(clsname)
            sentinel = "SENTINEL-%d" % vi
            obj.attrs[name] = sentinel
            try:
                got = getattr(obj, name)
                reached = isinstance(got, str) and got == sentinel
            except AttributeError:
                reached = False
            except Exception:
                reached = False
            check(not reached, "reserved-attrs-entry-reachable", {"what": what}, sig)
            try:
                delattr(obj, name)
            except Exception:
                pass
            try:
                still = obj.attrs.get(name, None) == sentinel
            except Exception:
                still = True
            if name not in ("attrs", "_attrs"):
                check(still, "reserved-attrs-entry-deleted-by-attribute-syntax", {"what": what}, sig)
            if name.startswith("_") and not is_member:
                core.must_raise(lambda: getattr(make(clsname), name), (AttributeError,), what + " [get of an unknown underscore name]", sig=sig)
        elif is_dim:
            n = len(obj.axes[name].values)
            # labels of another kind than the current ones are written as given (int -> float between the integers -> numeric-looking strings -> int)
            for other in ([10 + k for k in range(n)], [0.5 + k for k in range(n)], [str(3 * k + 2) for k in range(n)]):
                lib(lambda: setattr(obj, name, list(other)), what=what + " [set labels %r through the dimension name]" % (other,), sig=sig)
                check(obj.axes[name].values.tolist() == other and all(type(x) is type(y) or isinstance(x, (int, float)) and isinstance(y, (int, float)) and x == y
                                                                    for x, y in zip(obj.axes[name].values.tolist(), other)),
                      "dimension-name-set-did-not-write-labels", {"what": what, "got": core.jsonable(obj.axes[name].values), "expected": other}, sig)
            newlab = [100 + k for k in range(n)]
            lib(lambda: setattr(obj, name, newlab), what=what + " [set labels through the dimension name]", sig=sig)
            check(obj.axes[name].values.tolist() == newlab, "dimension-name-set-did-not-write-labels", {"what": what, "got": core.jsonable(obj.axes[name].values)}, sig)
            check(dict(obj.attrs) == before["attrs"] and name not in obj.attrs, "dimension-name-entered-attrs", {"what": what, "attrs": core.jsonable(obj.attrs)}, sig)
            got = lib(lambda: getattr(obj, name), what=what + " [get]", sig=sig)
            check(np.asarray(got).tolist() == newlab, "dimension-name-get-did-not-read-labels", {"what": what, "got": core.jsonable(got)}, sig)
            check(hasattr(obj, name), "hasattr", {"what": what}, sig)
            if clsname == "Dataset":
                for k in obj.keys():
                    if name in obj[k].dims:
                        check(obj[k].axes[name].values.tolist() == newlab, "dataset-variable-does-not-see-new-labels", {"what": what, "var": k}, sig)
            # an attrs entry stored (directly, or before the dimension got this name) under the dimension's name must not
            # shadow the axis: the name still reads and writes the labels, and the entry is left alone
            obj.attrs[name] = value if value is not None else "shadow"
            got = lib(lambda: getattr(obj, name), what=what + " [get with a colliding attrs entry]", sig=sig)
            check(isinstance(got, np.ndarray) and got.tolist() == newlab, "attrs-entry-shadows-dimension", {"what": what, "got": core.jsonable(got)}, sig)
            newlab2 = [200 + k for k in range(n)]
            lib(lambda: setattr(obj, name, newlab2), what=what + " [set with a colliding attrs entry]", sig=sig)
            check(obj.axes[name].values.tolist() == newlab2 and np.asarray(getattr(obj, name)).tolist() == newlab2, "attrs-entry-shadows-dimension", {"what": what}, sig)
            check(name in obj.attrs, "dimension-set-removed-attrs-entry", {"what": what}, sig)
        else:
            check(not hasattr(obj, name), "hasattr-before-set", {"what": what}, sig)
            core.must_raise(lambda: getattr(obj, name), (AttributeError,), what + " [get before set]", sig=sig)
            lib(lambda: setattr(obj, name, value), what=what + " [set]", sig=sig)
            check(name in obj.attrs and (obj.attrs[name] is value or core.attrs_equal(obj.attrs[name], value)), "public-set-did-not-write-attrs", {"what": what, "attrs": core.jsonable(obj.attrs)}, sig)
            got = lib(lambda: getattr(obj, name), what=what + " [get]", sig=sig)
            check(got is value or core.attrs_equal(got, value), "public-get-did-not-read-attrs", {"what": what, "got": core.jsonable(got)}, sig)
            check(hasattr(obj, name), "hasattr-after-set", {"what": what}, sig)
            after = state(obj, clsname)
            after["attrs"].pop(name, None)
            check(after == before, "public-set-touched-other-state", {"what": what}, sig)
            # a direct write into attrs is visible through attribute syntax, and the other way round
            obj.attrs[name] = "direct"
            check(getattr(obj, name) == "direct", "attrs-entry-not-visible", {"what": what}, sig)
            lib(lambda: delattr(obj, name), what=what + " [del]", sig=sig)
            check(name not in obj.attrs and not hasattr(obj, name), "public-del-did-not-delete", {"what": what, "attrs": core.jsonable(obj.attrs)}, sig)
            core.must_raise(lambda: delattr(obj, name), (AttributeError,), what + " [del twice]", sig=sig)
        # ---------------- the keyword form of the same write: Axis.set(**{name: value}) and DimArray.set_axis(axis=, **{name: value}) use setattr on the axis
        if clsname == "Axis" and name not in ("values", "inplace", "name", "axis", "attrs", "_attrs"):
            import contextlib
            for how in ("Axis.set", "DimArray.set_axis"):
                arr = make("DimArray")
                axo = make("Axis") if how == "Axis.set" else arr.axes[0]
                try:
                    with contextlib.redirect_stdout(core._DEVNULL), np.errstate(all="ignore"):
                        if how == "Axis.set":
                            axo.set(inplace=True, **{name: value})
                        else:
                            arr.set_axis(axis=0, **{name: value})
                    raised = False
                except Exception:
                    raised = True
                if reserved:
                    check(name not in dict(axo.attrs), "reserved-name-entered-attrs", {"what": what + " [%s(**{%r: value})]" % (how, name), "attrs": core.jsonable(dict(axo.attrs))}, sig)
                    if name == "tol" and not raised:
                        check(axo.tol is value or core.attrs_equal(axo.tol, value), "keyword-did-not-reach-the-property", {"what": what + " [%s(tol=value)]" % how, "tol": core.jsonable(axo.tol)}, sig)
                else:
                    check(not raised and name in axo.attrs and (axo.attrs[name] is value or core.attrs_equal(axo.attrs[name], value)), "public-set-did-not-write-attrs",
                          {"what": what + " [%s(**{%r: value})]" % (how, name), "attrs": core.jsonable(dict(axo.attrs))}, sig)
                cl.add("route:keyword-form")
        sub.append((core.digest([clsname, name, vi]), reserved or is_dim))
    # attrs setter / deleter
    obj = make(clsname)
    obj.attrs["a1"] = 1
    obj.attrs = {"b1": 2}
    check(dict(obj.attrs) == {"b1": 2}, "attrs-setter", {"cls": clsname, "got": core.jsonable(obj.attrs)}, sig)
    del obj.attrs
    check(dict(obj.attrs) == {}, "attrs-deleter", {"cls": clsname, "got": core.jsonable(obj.attrs)}, sig)
    return {"classes": sorted(cl), "sub": sub}


# ----------------------------------------------------------------------------------------------
# propagation (generated)
# ----------------------------------------------------------------------------------------------

attr_value = st.one_of(st.sampled_from(["m", "K", ""]), st.integers(-3, 3), st.floats(-2, 2, allow_nan=False).map(lambda x: round(x, 2)),
                       st.lists(st.integers(0, 3), max_size=3), st.fixed_dictionaries({"k": st.lists(st.integers(0, 2), max_size=2)}), st.none())
attr_key = st.sampled_from(["units", "long_name", "hist", "grid", "dtype", "copy", "labels", "dims", "name", "tol", "note"])
attrs_dict = st.dictionaries(attr_key, attr_value, min_size=1, max_size=4)


@st.composite
def prop_case(draw):
    from props import c15_immutability as c15
    base = draw(c15.case_st())
    return {"mode": "prop", "a": base["a"], "b": base["b"], "k": base["k"], "attrs": draw(attrs_dict),
            "axattrs": draw(st.dictionaries(st.sampled_from(["long_name", "units", "lst", "name2"]), attr_value, min_size=1, max_size=3))}


def strategy(tier):
    return prop_case()


def run_prop(case):
    da = core.env.import_dimarray()
    attrs, axattrs = case["attrs"], case["axattrs"]
    a = core.build(case["a"])
    # 'dims'/'labels'/... are class members of DimArray: they can only be stored through the attrs dict itself
    a.attrs.update(_copy.deepcopy(attrs))
    for ax in a.axes:
        ax.attrs.update(_copy.deepcopy(axattrs))
    b = core.build(case["b"], attrs={"units": "b-units", "only_b": 1})
    # (building the context flattens `a`: a library call on an array that carries the generated metadata)
    ctx = lib(lambda: ops.Ctx(da, a, b, case["k"]), what="flatten(dims[:2], insert=0) attrs=%s" % core.jsonable(attrs), sig={"op": "flatten", "rule": "keeps"})
    ctx.f.attrs.update(_copy.deepcopy(attrs))
    sub = []
    cl = set()
    if set(attrs) & {"dtype", "copy", "labels", "dims", "name", "tol"}:
        cl.add("attrs:ctor-param-key")
    only = case.get("only")
    # two passes over the catalogue: the second one after the operands' metadata was changed in place (a result carries the metadata the
    # operand has NOW, whatever an earlier call on the same operand returned)
    passes = [(name, rule, axdims, fn, 0) for name, rule, axdims, fn in ops.CATALOGUE] + [(name, rule, axdims, fn, 1) for name, rule, axdims, fn in ops.CATALOGUE if rule == "keeps"]
    for name, rule, axdims, fn, phase in passes:
        if rule is None or (only is not None and only != name):
            continue
        if phase == 1 and "changed_later_" not in attrs:
            attrs = dict(attrs, changed_later_=[7])
            for k_ in list(attrs)[:1]:
                if k_ != "changed_later_":
                    del attrs[k_]
            for x in (a, ctx.f):
                x.attrs.clear()
                x.attrs.update(_copy.deepcopy(attrs))
            axattrs = dict(axattrs, ax_changed_later_="yes")
            for ax in a.axes:
                ax.attrs["ax_changed_later_"] = "yes"
            cl.add("prop:second-call-after-metadata-change")
        sig = {"op": name, "rule": rule}
        what = "%s [%s] attrs=%s%s" % (name, rule, core.jsonable(attrs), " [second call, after the operand's metadata was changed in place]" if phase else "")
        try:
            import contextlib
            with np.errstate(all="ignore"), contextlib.redirect_stdout(core._DEVNULL):
                res = fn(ctx)
        except Exception as e:
            # a failure here belongs to the property that owns the operation; but metadata must not be what breaks it
            bare = core.build(case["a"])
            try:
                with np.errstate(all="ignore"):
                    fn(ops.Ctx(da, bare, b, case["k"]))
                failed_bare = False
            except Exception:
                failed_bare = True
            if not failed_bare:
                v = Violation("metadata-breaks-operation", {"what": what, "type": type(e).__name__, "msg": str(e)[:200], "frame": core.innermost_lib_frame(e)}, sig=sig)
                v.case = dict(case, only=name)
                raise v
            continue
        if not isinstance(res, da.DimArray):
            continue   # scalar results carry no metadata
        try:
            if rule == "keeps":
                check(core.attrs_equal(res.attrs, attrs), "attrs-not-carried", {"what": what, "got": core.jsonable(res.attrs), "expected": core.jsonable(attrs)}, sig)
                cl.add("prop:keeps")
                if axdims is not None:
                    for d in axdims(ctx):
                        if d in res.dims:
                            check(core.attrs_equal(res.axes[d].attrs, axattrs), "axis-attrs-not-carried", {"what": what, "dim": d, "got": core.jsonable(res.axes[d].attrs), "expected": core.jsonable(axattrs)}, sig)
                            cl.add("prop:axis-attrs")
            else:
                for k in list(attrs) + ["only_b"]:
                    check(k not in res.attrs, "attrs-not-dropped", {"what": what, "got": core.jsonable(res.attrs)}, sig)
                cl.add("prop:drops")
        except Violation as v:
            v.case = dict(case, only=name)
            raise
        sub.append((core.digest([case["a"], attrs, name, phase]), True))
    return {"classes": sorted(cl), "sub": sub}


def run_case(case):
    return run_route(case) if case["mode"] == "route" else run_prop(case)
