"""C15 - Operations do not modify their operands; copies are independent.

Statement: "No non-in-place operation - indexing, put(inplace=False), arithmetic and comparisons, reductions,
reshaping, reindexing and aligning (with or without sorting), sort_axis, interpolation, stacking and
concatenating, serialisation, Dataset construction and Dataset operations - changes the values, dtype, labels,
axis names or metadata of any array passed to it.  copy() of a DimArray is deep: later changes to the copy's
values, labels, axis names or metadata (including mutable metadata values) never show through in the original,
and vice versa."

Oracle: deep snapshot (value bytes, dtype, dims, labels, axis attrs, attrs) of every operand and of arrays that
share Axis objects with it, before == after, whether the call returns or raises.
"""
import copy as _copy

import numpy as np
from hypothesis import strategies as st

from vlib import core, gen, ops
from vlib.core import lib, check, Violation

ID = "C15"
TITLE = "Operations do not modify their operands; copies are independent"
RULE = ("generated operand sets: a (2-3 dims, sizes 2-3, first axis numeric, axes mostly unsorted, float values with optional NaN, array- and "
        "axis-level metadata with mutable values), b (dims same | subset | superset | disjoint relative to a, labels overlapping, shuffled), "
        "aliases a.transpose(...) and a.squeeze() kept alive (they share a's Axis objects); the WHOLE catalogue vlib/ops.py (%d entries: "
        "indexing, put(inplace=False), arithmetic, comparisons, reductions, along-axis transforms, reshaping, reindexing, aligning with / "
        "without sort, joining, serialisation, Dataset construction and operations) is applied to every operand set, with a snapshot "
        "comparison after every call; plus copy-then-mutate sequences (cells, labels, axis names, attrs incl. appending to list-valued "
        "attrs, axis attrs) in both directions.  A call is non-trivial when it returned normally on an operand with >= 1 unsorted axis." % len(ops.CATALOGUE))
ASSUMPTIONS = [
    "snapshot = bytes of the value buffer + dtype + dims + labels + deep copies of attrs and axis attrs",
    "later in-place operations on another object (e.g. a Dataset variable sharing the inserted array's buffer) are outside the statement",
]
MANDATORY = ["copy-mutate", "operand:unsorted", "operand:nan", "b:subset", "b:superset", "b:disjoint", "b:same"] + ["ok:" + n for n in ops.NAMES if n not in ops.REFUSED]

ATTRS = {"units": "m", "hist": [1, 2], "nested": {"k": [1]}, "tags": {1, 2}, "name": "own-name"}       # (a set: metadata that JSON cannot encode; a name of its own)
AXATTRS = {"long_name": "first axis", "lst": [3]}


def budget(tier):
    return {"quick": dict(examples=200, shards=1), "thorough": dict(examples=2000, shards=16)}[tier]


@st.composite
def case_st(draw):
    nd = draw(st.integers(2, 3))
    dims = list(draw(st.permutations(draw(gen.names_pool()))))[:nd]
    labels = []
    for i in range(nd):
        n = draw(st.integers(2, 3))
        labels.append(draw(gen.labels(n, kinds="if" if i == 0 else "ifs", order=draw(st.sampled_from(["shuf", "shuf", "dec", "inc"])))))
    ncell = int(np.prod([len(l) for l in labels]))
    vk = draw(st.sampled_from("fffi"))
    if vk == "i":
        vals = draw(st.lists(st.integers(4, 40), min_size=ncell, max_size=ncell, unique=True))       # integer data (no NaN)
    else:
        vals = [k / 4.0 + 0.125 for k in draw(st.lists(st.integers(4, 40), min_size=ncell, max_size=ncell, unique=True))]
        if draw(st.booleans()):
            vals[draw(st.integers(0, ncell - 1))] = "NaN"
    a = {"dims": dims, "labels": labels, "vk": vk, "vals": vals, "hist": draw(gen.history(labels))}
    rel = draw(st.sampled_from(["same", "subset", "superset", "disjoint"]))
    if rel == "same":
        bd = list(dims)
    elif rel == "subset":
        bd = dims[:draw(st.integers(1, nd - 1))]
    elif rel == "superset":
        bd = dims + ["q"]
    else:
        bd = ["q", "r"]
    bd = list(draw(st.permutations(bd)))
    bl = []
    for d in bd:
        if d in dims:
            base = labels[dims.index(d)]
            r, l = draw(gen.related_labels(base, core.label_kind(base), relation=draw(st.sampled_from(["permuted", "overlapping", "subset", "equal", "equal"])), order="shuf"))
            if core.label_kind(base) == "i" and draw(st.integers(0, 2)) == 0:
                l = [float(x) for x in l]       # the same labels as floats: equal, yet of another type
            bl.append(l)
        else:
            bl.append(draw(gen.labels(draw(st.integers(1, 2)), kinds="if", order="shuf")))      # (a new dimension may hold a single label)
    b = {"dims": bd, "labels": bl, "vk": "f", "base": 60}
    muts = draw(st.lists(st.tuples(st.integers(0, 11), st.integers(0, 20)).map(list), min_size=1, max_size=8))
    return {"a": a, "b": b, "k": draw(st.integers(0, 10)), "rel": rel, "muts": muts}


def strategy(tier):
    return case_st()


# ----------------------------------------------------------------------------------------------

def build_a(spec):
    a = core.build(spec, attrs=_copy.deepcopy(ATTRS))
    a.axes[0].attrs.update(_copy.deepcopy(AXATTRS))
    return a


def mutate(x, m, j, da):
    """one in-place change; returns a description"""
    n0 = x.shape[0]
    if m == 0:
        x.values[(j % n0,) + (0,) * (x.ndim - 1)] = -123.5
        return "values[cell] = v"
    if m == 1:
        x[x.axes[0].values[j % n0]] = -5.5
        return "x[label] = v"
    if m == 2:
        x.axes[0][j % n0] = 1000 + j
        return "axes[0][i] = label"
    if m == 3:
        x.axes[x.ndim - 1].values[0] = x.axes[x.ndim - 1].values[0] if False else (777 if x.axes[x.ndim - 1].is_numeric() else "zz")
        return "axes[-1].values[0] = label (direct)"
    if m == 4:
        x.axes[0].name = "ren%d" % j
        return "axes[0].name = new"
    if m == 5:
        x.attrs["new%d" % j] = j
        return "attrs[new] = v"
    if m == 6:
        x.units = "changed%d" % j
        return "x.units = v"
    if m == 7:
        x.attrs["hist"].append(j)
        return "attrs['hist'].append(v)"
    if m == 8:
        x.attrs["nested"]["k"].append(j)
        return "attrs['nested']['k'].append(v)"
    if m == 9:
        x.axes[0].attrs["long_name"] = "changed"
        x.axes[0].attrs["lst"].append(j)
        return "axis attrs changed"
    if m == 10:
        x.values = np.zeros(x.shape)
        return "x.values = zeros"
    if m == 11:
        x.attrs.pop("units", None)
        x.set_axis(np.arange(x.shape[-1]) + 50, axis=x.ndim - 1)
        return "del attrs['units']; set_axis in place"
    raise ValueError(m)


def run_case(case):
    da = core.env.import_dimarray()
    a = build_a(case["a"])
    b = core.build(case["b"], attrs={"units": "b"})
    alias_t = a.transpose(*a.dims[::-1])       # shares a's Axis objects
    alias_s = a.squeeze()                      # shares them too
    k = case["k"]
    cl = set(["b:" + case["rel"]])
    unsorted_axes = any(gen.order_of(l) in ("shuf", "dec") for l in case["a"]["labels"])
    if unsorted_axes:
        cl.add("operand:unsorted")
    if "NaN" in case["a"]["vals"]:
        cl.add("operand:nan")
    sub = []
    only = case.get("only")
    ctx = ops.Ctx(da, a, b, k)
    watched = [("a", a), ("b", b), ("alias transpose", alias_t), ("alias squeeze", alias_s), ("flattened alias", ctx.f)]
    snaps = [core.snapshot(x) for _, x in watched]
    ids = [id(ax) for ax in a.axes]
    for name, _, _, fn in ops.CATALOGUE:
        if only is not None and only != name:
            continue
        ok = True
        try:
            with np.errstate(all="ignore"):
                import contextlib
                with contextlib.redirect_stdout(core._DEVNULL):
                    fn(ctx)
        except Exception:
            ok = False       # the statement covers calls that raise as well: operands must still be untouched
        for (wname, x), s in zip(watched, snaps):
            d = core.snapshot_diff(s, core.snapshot(x))
            if d:
                v = Violation("operand-modified", {"op": name, "operand": wname, "changed": d, "call_raised": not ok, "now": core.brief(x)}, sig={"op": name, "operand": wname})
                v.case = dict(case, only=name)
                raise v
        ch = ctx.changed_args()
        if ch:
            v = Violation("argument-modified", {"op": name, "argument_types": ch, "call_raised": not ok}, sig={"op": name, "operand": "argument"})
            v.case = dict(case, only=name)
            raise v
        if [id(ax) for ax in a.axes] != ids:
            v = Violation("operand-axis-object-replaced", {"op": name}, sig={"op": name})
            v.case = dict(case, only=name)
            raise v
        if ok:
            cl.add("ok:" + name)
        sub.append((core.digest([case["a"], case["b"], k, name]), ok and unsorted_axes))

    # ---- copy independence, both directions ---------------------------------------------------
    if only is None or only == "copy":
        for direction in ("mutate-copy", "mutate-original"):
            orig = build_a(case["a"])
            cp = lib(lambda: orig.copy(), what="copy()", sig={"op": "copy"})
            core.expect_equal_arrays(cp, orig, "copy() equals the original", sig={"op": "copy"}, check_attrs=True)
            target, other = (cp, orig) if direction == "mutate-copy" else (orig, cp)
            s_other = core.snapshot(other)
            for m, j in case["muts"]:
                try:
                    desc = mutate(target, m, j, da)
                except Exception as e:   # an in-place change may be refused; independence is still required
                    desc = "mutation %d refused (%s)" % (m, type(e).__name__)
                d = core.snapshot_diff(s_other, core.snapshot(other))
                if d:
                    v = Violation("copy-not-independent", {"direction": direction, "after": desc, "changed": d, "other_now": core.brief(other)}, sig={"op": "copy", "mutation": m})
                    v.case = dict(case, only="copy")
                    raise v
            sub.append((core.digest([case["a"], case["muts"], direction]), True))
        cl.add("copy-mutate")
    return {"classes": sorted(cl), "sub": sub}
