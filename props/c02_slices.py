"""C02 - Label slices are inclusive bounding boxes; position slices stay NumPy-like.

Statement (properties.jsonl): "A label slice a[lo:hi] along a numeric axis whose labels are monotonic
selects exactly the positions whose label lies between the two bounds, both bounds included and
neither required to be an existing label, in axis order - or in reverse order for a negative step,
keeping every |step|-th element.  On non-numeric or non-monotonic axes both bounds must be existing
labels and the slice runs from the first to the second, inclusive; an open bound extends to the end
of the axis and a range that contains no label yields an empty array, never a wrapped-around
selection.  Position slices (.ix) keep NumPy's exclusive-stop meaning."

Oracle: vlib.indexmodel.slice_positions (list comprehension over the labels in walking order; no
searchsorted).  Finite 1-D spaces are enumerated completely; the N-d embedding is generated.
"""
import itertools

import numpy as np
from hypothesis import strategies as st

from vlib import core, gen, indexmodel as im
from vlib.core import lib, check, Violation

ID = "C02"
TITLE = "Label slices are inclusive bounding boxes; position slices stay NumPy-like"
RULE = ("1-D: every strictly increasing subsequence of {0,2,4,6,8} (length 0-5), as is and reversed, int and float(x0.5), "
        "x all (start, stop) in {None,-1..9} x step in {None,1,2,3,-1,-2}, through a[lo:hi:step] and take(slice, axis=0); "
        "all non-monotonic permutations of {1,2,3,4} and all permutations of subsets of 'abcd' with bounds in labels+None+absent; "
        ".ix[i:j:k] for lengths 0-5, i,j in {None,-6..6}: all enumerated completely.  N-d: generated arrays (2-4 dims) with a label "
        "or position slice in any dimension, combined with scalar/list/mask/full on the others.  A sub-case is non-trivial when the "
        "selection is non-empty, or a bound lies strictly between/outside the labels, or the step is negative; distinct = distinct "
        "(axis, start, stop, step, spelling) or distinct N-d case.")
ASSUMPTIONS = [
    "oracle = list comprehension over labels in walking order (vlib/indexmodel.py)",
    "bounds given against the walking direction (e.g. a[1:3] on a decreasing axis): both an empty result and the bounding box are accepted (statement is silent)",
    "axes of length < 2 have no direction: either reading accepted",
]
MANDATORY = ["axis.loc:issorted", "1d:inc", "1d:dec", "1d:neg-step", "1d:bound-between", "1d:bound-outside", "1d:empty-selection",
             "strict:shuffled", "strict:str", "strict:absent-bound", "pos", "nd:slice-not-first-dim", "nd:with-list", "nd:with-scalar", "nd:ellipsis", "nd:take-axis-negative"]

STEPS = [None, 1, 2, 3, -1, -2]
BASE = [0, 2, 4, 6, 8]
BOUNDS = [None] + list(range(-1, 10))


def budget(tier):
    return {"quick": dict(examples=800, shards=1), "thorough": dict(examples=10000, shards=16)}[tier]


# ----------------------------------------------------------------------------------------------
# enumeration
# ----------------------------------------------------------------------------------------------

def enumerate_cases(tier):
    # monotonic numeric axes
    for r in range(0, 6):
        for sub in itertools.combinations(BASE, r):
            for rev in (False, True):
                if rev and r < 2:
                    continue
                for fl in (False, True, "fractional-bounds-on-int-axis"):
                    labs = list(sub)[::-1] if rev else list(sub)
                    if fl is True:
                        labs = [x * 0.5 for x in labs]
                        bounds = [None if b is None else b * 0.5 for b in BOUNDS]
                    elif fl:
                        if r > 4:
                            continue
                        bounds = [None] + [b * 0.5 for b in BOUNDS if b is not None and (b % 2 or b in (2, 4))]   # x.5 bounds (and two labels)
                    else:
                        bounds = list(BOUNDS)
                    for step in STEPS:
                        yield "1d-monotonic", {"mode": "1d", "labels": labs, "kind": "f" if fl is True else "i", "step": step, "bounds": bounds}
    # non-monotonic numeric axes: strict rule
    for base in ([1, 2, 3, 4], [0, 1, 2, 3], [-1, 0, 1]):       # (0 is a label like any other)
        for perm in itertools.permutations(base):
            inc, dec = im.monotonic(list(perm))
            if inc or dec:
                continue
            for step in STEPS:
                yield "1d-nonmonotonic", {"mode": "1d", "labels": list(perm), "kind": "i", "step": step, "bounds": [None] + list(base) + [7]}
    for perm in itertools.permutations([0.0, -0.5, 1.0]):
        inc, dec = im.monotonic(list(perm))
        if inc or dec:
            continue
        for step in STEPS:
            yield "1d-nonmonotonic", {"mode": "1d", "labels": list(perm), "kind": "f", "step": step, "bounds": [None, 0.0, -0.5, 1.0, 0.25]}
    for perm in itertools.permutations([2000.0, 2000.01, 2000.02]):       # large magnitude, small spacing: neighbours are 5e-6 apart relatively
        inc, dec = im.monotonic(list(perm))
        if inc or dec:
            continue
        for step in STEPS:
            yield "1d-nonmonotonic", {"mode": "1d", "labels": list(perm), "kind": "f", "step": step, "bounds": [None, 2000.0, 2000.01, 2000.02, 2000.005]}
    for perm in itertools.permutations([1.5, 0.5, 2.5]):
        inc, dec = im.monotonic(list(perm))
        if inc or dec:
            continue
        for step in STEPS:
            yield "1d-nonmonotonic", {"mode": "1d", "labels": list(perm), "kind": "f", "step": step, "bounds": [None, 0.5, 1.5, 2.5, 2.0]}
    # str axes
    for sub in itertools.permutations(["", "a", "b"]):           # (the empty string is a label like any other)
        for step in STEPS:
            yield "1d-str", {"mode": "1d", "labels": list(sub), "kind": "s", "step": step, "bounds": [None] + list(sub) + ["zz"]}
    for r in range(0, 5):
        for sub in itertools.permutations("abcd", r):
            for step in STEPS:
                yield "1d-str", {"mode": "1d", "labels": list(sub), "kind": "s", "step": step, "bounds": [None] + list(sub) + ["zz"]}
    # position slices
    for n in range(0, 6):
        for step in STEPS:
            yield "1d-position", {"mode": "pos", "n": n, "step": step, "bounds": [None] + list(range(-6, 7))}


# ----------------------------------------------------------------------------------------------
# generated N-d embedding
# ----------------------------------------------------------------------------------------------

@st.composite
def _bound(draw, labs, kind):
    if kind == "s":
        return draw(st.sampled_from([None] + list(labs))) if labs else None
    inc, dec = im.monotonic(labs)
    if not (inc or dec):
        return draw(st.sampled_from([None] + list(labs)))
    c = draw(st.integers(0, 6))
    if c == 6 and labs and kind == "i":
        return draw(st.sampled_from(labs)) + draw(st.sampled_from([0.5, -0.5, 0.2, -0.8]))     # a fractional bound on an integer axis
    c = min(c, 5)
    if c == 0 or not labs:
        return None if c == 0 or not labs and draw(st.booleans()) else (1 if kind == "i" else 0.75)
    if c in (1, 2):
        return draw(st.sampled_from(labs))
    where = ["below", "between", "above"][c - 3]
    return gen.absent_label(labs, kind, where)


@st.composite
def _other_index(draw, labs):
    n = len(labs)
    k = draw(st.sampled_from(["full", "scalar", "list", "mask", "slice"] if n else ["full", "list", "mask"]))
    if k == "full":
        return {"k": "full"}
    if k == "scalar":
        return {"k": "scalar", "v": draw(st.sampled_from(labs))}
    if k == "list":
        v = draw(st.lists(st.sampled_from(labs), min_size=0, max_size=3)) if n else []
        return {"k": "list", "v": v, "as": draw(st.sampled_from(["list", "array"]))}
    if k == "mask":
        return {"k": "mask", "v": draw(st.lists(st.booleans(), min_size=n, max_size=n))}
    return None  # slice: filled by caller


@st.composite
def nd_case(draw):
    spec = draw(gen.array_spec(min_dims=2, max_dims=4, min_size=0, max_size=4))
    nd = len(spec["dims"])
    which = draw(st.integers(0, nd - 1))
    position = draw(st.sampled_from([False, False, True]))
    alone = draw(st.integers(0, 3)) == 0        # the slice is the only index: also spelt take(slice, axis=name | position | negative position)
    descs = []
    for i, labs in enumerate(spec["labels"]):
        kind = core.label_kind(labs) if labs else "i"
        d = None
        if i != which:
            if alone:
                d = {"k": "full"}
            elif position:
                d = {"k": "full"}
                n = len(labs)
                if n and draw(st.booleans()):
                    d = {"k": "pscalar", "v": draw(st.integers(-n, n - 1))}
            else:
                d = draw(_other_index(labs))
        if d is None:
            step = draw(st.sampled_from(STEPS))
            if position:
                d = {"k": "pslice", "v": [draw(st.sampled_from([None] + list(range(-5, 6)))),
                                          draw(st.sampled_from([None] + list(range(-5, 6)))), step]}
            else:
                d = {"k": "slice", "v": [draw(_bound(labs, kind)), draw(_bound(labs, kind)), step]}
        descs.append(d)
    spelling = draw(st.sampled_from(["getitem", "take", "dict", "ellipsis"] if not position else ["ix", "iloc", "take-position", "ix-ellipsis"]))
    if alone:
        spelling = draw(st.sampled_from(["take-axis-name", "take-axis-pos", "take-axis-neg"]))
    return {"mode": "nd", "spec": spec, "index": descs, "spelling": spelling, "position": position}


def strategy(tier):
    return nd_case()


# ----------------------------------------------------------------------------------------------
# oracle
# ----------------------------------------------------------------------------------------------

def _arr(labels, kind):
    da = core.env.import_dimarray()
    if kind == "s":
        lab = np.array(labels, dtype=object)
    elif kind == "f":
        lab = np.array(labels, dtype=float)
    else:
        lab = np.array(labels, dtype=int)
    vals = np.arange(len(labels), dtype=float) + 100.5
    return da.DimArray(vals, axes=[da.Axis(lab, "x0")]), vals


def _classify_1d(labels, kind, start, stop, step, sel):
    cl = []
    inc, dec = im.monotonic(labels)
    numeric = kind in "if"
    if numeric and (inc or dec):
        if len(labels) >= 2:
            cl.append("1d:inc" if inc else "1d:dec")
        for b in (start, stop):
            if b is not None and len(labels):
                if b not in labels and min(labels) < b < max(labels):
                    cl.append("1d:bound-between")
                if b < min(labels) or b > max(labels):
                    cl.append("1d:bound-outside")
    else:
        cl.append("strict:str" if kind == "s" else "strict:shuffled")
    if step is not None and step < 0:
        cl.append("1d:neg-step")
    if not sel:
        cl.append("1d:empty-selection")
    nontrivial = bool(sel) or (step is not None and step < 0) or "1d:bound-between" in cl or "1d:bound-outside" in cl
    return cl, nontrivial


def run_1d(case):
    labels, kind, step = case["labels"], case["kind"], case["step"]
    pairs = case.get("pairs") or [[s, e] for s in case["bounds"] for e in case["bounds"]]
    a, vals = _arr(labels, kind)
    sub = []
    classes = set()
    for start, stop in pairs:
        mini = {"mode": "1d", "labels": labels, "kind": kind, "step": step, "pairs": [[start, stop]]}
        try:
            try:
                alts = im.slice_positions(labels, start, stop, step, numeric=kind in "if")
                expect_exc = None
            except im.Expected as e:
                alts, expect_exc = None, e
            # Axis.loc's documented issorted=True (labels stored in increasing order: binary search instead of a scan) locates the same positions
            declared_sorted = len(labels) >= 1 and all(x < y for x, y in zip(labels, labels[1:]))
            for spelling in ("getitem", "take") + (("axis.loc(issorted=True)",) if declared_sorted and expect_exc is None else ()):
                sl = slice(start, stop, step)
                f = (lambda: a[sl]) if spelling == "getitem" else (lambda: a.take(sl, axis=0)) if spelling == "take" else (lambda: a.take(a.axes[0].loc(sl, issorted=True), axis=0, indexing="position"))
                if spelling.startswith("axis.loc"):
                    classes.add("axis.loc:issorted")
                what = "%s labels=%r [%r:%r:%r]" % (spelling, labels, start, stop, step)
                sig = {"mode": "1d", "axis": "monotonic" if alts is not None and kind != "s" and any(im.monotonic(labels)) else "strict"}
                if expect_exc is not None:
                    core.must_raise(f, expect_exc.types, what, sig=sig)
                    classes.add("strict:absent-bound")
                    sub.append((core.digest([labels, start, stop, step, spelling]), True))
                    continue
                res = lib(f, what=what, sig=sig)
                check(hasattr(res, "axes") and res.ndim == 1 and res.dims == ("x0",), "result-shape", {"what": what, "got": core.brief(res)}, sig)
                got_l = [core.canon_label(x) for x in res.axes[0].values.tolist()]
                ok = None
                for alt in alts:
                    if got_l == [core.canon_label(labels[p]) for p in alt]:
                        ok = alt
                        break
                check(ok is not None, "slice-selection", {"what": what, "got_labels": core.jsonable(res.axes[0].values),
                      "expected_one_of": [[labels[p] for p in alt] for alt in alts]}, sig)
                check(res.values.tolist() == [vals[p] for p in ok], "slice-values", {"what": what, "got": core.jsonable(res.values),
                      "expected": [vals[p] for p in ok]}, sig)
                cl, nt = _classify_1d(labels, kind, start, stop, step, alts[0])
                classes.update(cl)
                sub.append((core.digest([labels, start, stop, step, spelling]), nt))
        except Violation as v:
            v.case = mini
            raise
    return {"classes": sorted(classes), "sub": sub}


def run_pos(case):
    n, step = case["n"], case["step"]
    da = core.env.import_dimarray()
    labels = np.array([10 * (i + 1) for i in range(n)][::-1], dtype=int)   # decreasing labels: a label reading would differ
    vals = np.arange(n, dtype=float) + 0.5
    a = da.DimArray(vals, axes=[da.Axis(labels, "x0")])
    pairs = case.get("pairs") or [[s, e] for s in case["bounds"] for e in case["bounds"]]
    sub = []
    for i, j in pairs:
        mini = {"mode": "pos", "n": n, "step": step, "pairs": [[i, j]]}
        sl = slice(i, j, step)
        try:
            for spelling in ("ix", "iloc", "take"):
                what = "%s n=%d [%r:%r:%r]" % (spelling, n, i, j, step)
                f = {"ix": lambda: a.ix[sl], "iloc": lambda: a.iloc[sl], "take": lambda: a.take(sl, axis=0, indexing="position")}[spelling]
                res = lib(f, what=what)
                check(hasattr(res, "axes") and res.dims == ("x0",), "result-shape", {"what": what, "got": core.brief(res)})
                check(res.values.tolist() == vals[sl].tolist() and res.axes[0].values.tolist() == labels[sl].tolist(),
                      "position-slice", {"what": what, "got": core.brief(res), "expected_values": vals[sl].tolist(), "expected_labels": labels[sl].tolist()})
                sub.append((core.digest(["pos", n, i, j, step, spelling]), len(vals[sl]) > 0 or (step or 1) < 0))
        except Violation as v:
            v.case = mini
            raise
    return {"classes": ["pos"], "sub": sub}


def run_nd(case):
    spec, descs, spelling = case["spec"], case["index"], case["spelling"]
    a = core.build(spec)
    snap = core.snapshot(a)
    vals = core.spec_values(spec)
    dims, labels = spec["dims"], spec["labels"]
    idx = tuple(im.index_object(d) for d in descs)
    dd = None
    if spelling == "getitem":
        f = lambda: a[idx]
    elif spelling == "take":
        f = lambda: a.take(idx)
    elif spelling == "dict":
        # (one mapping object for all three spellings: an index argument is still there afterwards)
        dd = {d: i for d, i, de in zip(dims, idx, descs) if de["k"] != "full"}
        dd_keys = list(dd)

        def f():
            r1 = a.take(dd)
            r2 = a[dd]
            r3 = a.loc[dd]
            core.expect_equal_arrays(r2, r1, "a[{dim: index}] against take({dim: index})", sig={"mode": "nd"}) if hasattr(r1, "axes") and hasattr(r2, "axes") else None
            core.expect_equal_arrays(r3, r1, "a.loc[{dim: index}] against take({dim: index})", sig={"mode": "nd"}) if hasattr(r1, "axes") and hasattr(r3, "axes") else None
            return r1
    elif spelling == "ix":
        f = lambda: a.ix[idx]
    elif spelling == "iloc":
        f = lambda: a.iloc[idx]
    elif spelling == "take-position":
        f = lambda: a.take(idx, indexing="position")
    elif spelling in ("ellipsis", "ix-ellipsis"):
        # the longest run of full slices (possibly empty, then at the end) is written as an Ellipsis
        best, cur = (len(descs), 0), None
        for i, de in enumerate(list(descs) + [{"k": "end"}]):
            if de["k"] == "full":
                cur = (cur[0], cur[1] + 1) if cur else (i, 1)
            else:
                if cur and cur[1] > best[1]:
                    best = cur
                cur = None
        key = idx[:best[0]] + (Ellipsis,) + idx[best[0] + best[1]:]
        f = (lambda: a[key]) if spelling == "ellipsis" else (lambda: a.ix[key])
    elif spelling.startswith("take-axis"):
        w = [i for i, de in enumerate(descs) if de["k"] != "full"]
        w = w[0] if w else 0
        axarg = {"take-axis-name": dims[w], "take-axis-pos": w, "take-axis-neg": w - len(dims)}[spelling]
        kwp = {"indexing": "position"} if case.get("position") else {}
        f = lambda: a.take(idx[w], axis=axarg, **kwp)
    what = "%s %s" % (spelling, core.jsonable(descs))
    sig = {"mode": "nd"}
    try:
        im.expected_getitem(dims, labels, descs)
        exc = None
    except im.Expected as e:
        exc = e
    if exc is not None:
        core.must_raise(f, exc.types, what, sig=sig)
    else:
        res = lib(f, what=what, sig=sig)
        im.check_getitem(res, vals, dims, labels, descs, what, sig=sig, kinds=True)
    core.expect_unchanged(a, snap, what, sig=sig)
    if dd is not None:
        check(list(dd) == dd_keys, "index-mapping-modified", {"what": what, "now": list(dd), "was": dd_keys}, sig)
    cl = []
    sl_dims = [i for i, d in enumerate(descs) if d["k"] in ("slice", "pslice")]
    if any(i > 0 for i in sl_dims):
        cl.append("nd:slice-not-first-dim")
    if any(d["k"] == "list" for d in descs):
        cl.append("nd:with-list")
    if any(d["k"] in ("scalar", "pscalar") for d in descs):
        cl.append("nd:with-scalar")
    if any(d["k"] == "mask" for d in descs):
        cl.append("nd:with-mask")
    if any(d["k"] == "pslice" for d in descs):
        cl.append("nd:position")
    if "ellipsis" in spelling:
        cl.append("nd:ellipsis")
    if spelling == "take-axis-neg":
        cl.append("nd:take-axis-negative")
    if exc is not None:
        cl.append("nd:expected-IndexError")
    for i in sl_dims:
        if descs[i]["k"] == "slice":
            cl.append("nd:axis-" + gen.order_of(labels[i]) + "-" + (core.label_kind(labels[i]) if labels[i] else "empty"))
        if descs[i]["v"][2] is not None and descs[i]["v"][2] < 0:
            cl.append("nd:neg-step")
    nontrivial = all(len(l) > 0 for l in labels)
    return {"classes": cl, "nontrivial": nontrivial}


def run_case(case):
    if case["mode"] == "1d":
        return run_1d(case)
    if case["mode"] == "pos":
        return run_pos(case)
    return run_nd(case)
