"""C18 - interp_axis is per-fibre linear interpolation, exact at the nodes.

Statement: "interp_axis(new, axis) returns, for every one-dimensional fibre along the axis, the piecewise-linear
interpolation (numpy.interp) of that fibre's values against the axis labels evaluated at new, regardless of the
order in which the labels are stored; it reproduces the original values at existing labels, returns the
left/right fill (NaN by default) outside the label range, sets the axis to exactly new, and leaves the other axes
and the metadata unchanged.  The N-dimensional, Dataset and interp_like variants agree with this 1-D definition."

Oracle: per fibre (from the dict model) a hand-written piecewise-linear interpolation on the (label, value) pairs
sorted by label, cross-checked with np.interp on the sorted fibre.
"""
import numpy as np
from hypothesis import strategies as st

from vlib import core, gen
from vlib.core import lib, check, Violation

ID = "C18"
TITLE = "interp_axis is per-fibre linear interpolation, exact at the nodes"
RULE = ("generated float/int arrays of 1-4 dims (finite dyadic values), numeric labels stored inc/dec/shuffled, interpolated axis of size 1-5 "
        "at any position (by name / position); new coordinates sorted or not, incl. empty, mixing points below / on / between / above the "
        "labels; left/right in {NaN, distinct finite fills}; issorted in {None, True (increasing axes)}; interp_like (DimArray / Axes "
        "template sharing some dims); Dataset.interp_axis with variables partly lacking the axis.  Non-trivial: a point strictly between "
        "two nodes or outside the range, on an axis that is not stored increasing or is not the first dimension.")
ASSUMPTIONS = [
    "oracle: y0 + (x-x0)*(y1-y0)/(x1-x0) on the sorted fibre, compared with rtol=atol=1e-12, cross-checked against np.interp",
    "labels and values are dyadic rationals; data may contain NaN (a node keeps its value, an interval next to a NaN is NaN) and infinities (numpy.interp semantics: from the left node, else from the right node, else the common node value)",
]
MANDATORY = ["new:axis-object-of-another-name", "new:named-dimarray", "operand:interpolated-before-with-other-values", "data:nan", "point:between", "point:below", "point:above", "point:on-node", "axis:size-1", "axis:shuf", "axis:dec", "axis:not-first", "ndim:1", "ndim>=2",
             "fill:left-finite", "fill:right-finite", "new:unsorted", "new:empty", "issorted:True", "like", "dataset", "vk:i"]


def budget(tier):
    return {"quick": dict(examples=2500, shards=1), "thorough": dict(examples=15000, shards=16)}[tier]


@st.composite
def points(draw, labs):
    lo, hi = min(labs), max(labs)
    srt = sorted(labs)
    cands = [lo - 1, lo - 0.25, hi + 0.5, hi + 2] + [float(x) for x in labs]
    for a, b in zip(srt, srt[1:]):
        cands += [(a + b) / 2.0, a + (b - a) / 4.0, b - (b - a) / 8.0]
    pts = draw(st.lists(st.sampled_from(cands), min_size=0, max_size=5, unique=True))
    k = draw(st.integers(0, 7))
    if k == 0:
        return [float(x) for x in draw(st.permutations(list(labs)))]      # exactly the existing labels, in another order
    if k == 1:
        return [float(x) for x in labs]                                     # ... or in the same order (identity)
    if draw(st.booleans()):
        pts = sorted(pts)
    return [float(x) for x in pts]


@st.composite
def case_st(draw):
    mode = draw(st.sampled_from(["axis", "axis", "axis", "like", "dataset"]))
    nd = draw(st.integers(1, 4 if mode != "dataset" else 3))
    dims = list(draw(st.permutations(draw(gen.names_pool()))))[:nd]
    ax = draw(st.integers(0, nd - 1))
    labels = []
    for i in range(nd):
        n = draw(st.integers(1, 5)) if i == ax else draw(st.integers(1, 3))
        labels.append(draw(gen.labels(n, kinds="if" if (i == ax or mode == "like") else "ifs")))
    if len(labels[ax]) >= 3 and draw(st.integers(0, 5)) == 0:
        # labels whose end points look like default positions (0 ... n-1) while the interior ones are not 1, 2, ...: unevenly spaced nodes
        n = len(labels[ax])
        inner = sorted(draw(st.lists(st.integers(1, 4 * (n - 1) - 1), min_size=n - 2, max_size=n - 2, unique=True)))
        lab = [0.0] + [k / 4.0 for k in inner] + [float(n - 1)]
        if all(float(i) == x for i, x in enumerate(lab)):
            lab[1] = 0.25
        labels[ax] = list(draw(st.permutations(lab))) if draw(st.booleans()) else lab
    vk = draw(st.sampled_from("ffi"))
    ncell = int(np.prod([len(l) for l in labels]))
    vals = [k / 4.0 for k in draw(st.lists(st.integers(-20, 20), min_size=ncell, max_size=ncell))] if vk == "f" else draw(st.lists(st.integers(-9, 9), min_size=ncell, max_size=ncell))
    if vk == "f" and draw(st.integers(0, 3)) == 0:
        # missing values in the data: a node keeps its own value whatever its neighbours are; an interval next to a NaN is NaN
        for j in draw(st.lists(st.integers(0, ncell - 1), min_size=1, max_size=max(1, ncell // 3), unique=True)):
            vals[j] = "NaN"
    elif vk == "f" and draw(st.integers(0, 5)) == 0:
        for j in draw(st.lists(st.integers(0, ncell - 1), min_size=1, max_size=2, unique=True)):
            vals[j] = draw(st.sampled_from(["inf", "-inf"]))
    spec = {"dims": dims, "labels": labels, "vk": vk, "vals": vals, "attrs": {"units": "K", "h": [1]}}
    case = {"mode": mode, "spec": spec, "ax": ax, "axis_form": draw(st.sampled_from(["name", "pos", "neg"])), "new": draw(points(labels[ax])),
            "left": draw(st.sampled_from(["nan", "nan", -77.0, 0, 0.0])), "right": draw(st.sampled_from(["nan", "nan", 88.0, 0, 0.0])),
            "issorted": draw(st.sampled_from([None, None, True])), "new_as": draw(st.sampled_from(["list", "array", "axis-other-name", "named-dimarray"])), "positional": draw(st.integers(0, 3)) == 0}
    if mode == "like":
        # template: new coordinates for a subset of dims (+ an unrelated dim)
        t = {}
        for d, l in zip(dims, labels):
            if draw(st.booleans()):
                t[d] = draw(points(l))
        t[dims[ax]] = case["new"]
        if draw(st.booleans()):
            t["zz"] = [1.0, 2.0]
        case["template"] = t
        case["t_as"] = draw(st.sampled_from(["axes", "dimarray"]))
    if mode == "dataset":
        # other variables: some share the axis, some do not
        others = []
        for j in range(draw(st.integers(1, 3))):
            if draw(st.booleans()):
                od = [dims[ax]] if draw(st.booleans()) else ["q", dims[ax]]
                ol = [labels[ax]] if len(od) == 1 else [[1, 2], labels[ax]]
            else:
                od, ol = (["q"], [[1, 2]]) if draw(st.booleans()) else ([], [])
            n2 = int(np.prod([len(l) for l in ol])) if ol else 1
            others.append({"dims": od, "labels": ol, "vk": "f", "vals": [k / 4.0 for k in draw(st.lists(st.integers(-20, 20), min_size=n2, max_size=n2))], "attrs": {"units": "o%d" % j}})
        case["others"] = others
    case["rehearse"] = draw(st.integers(0, 3)) == 0
    return case


def strategy(tier):
    return case_st()


# ----------------------------------------------------------------------------------------------

def interp1(pairs, x, left, right):
    """pairs: (label, value) sorted by label"""
    xs = [p[0] for p in pairs]
    if x < xs[0]:
        return left
    if x > xs[-1]:
        return right
    for (x0, y0), (x1, y1) in zip(pairs, pairs[1:]):
        if x == x0:
            return float(y0)
        if x0 < x < x1:
            # numpy.interp's definition, including its treatment of infinite node values: evaluated from the left
            # node, from the right node if that gives NaN, and equal to the node value if both nodes hold the same value
            y0, y1 = float(y0), float(y1)
            with np.errstate(all="ignore"):
                slope = np.float64(y1 - y0) / np.float64(x1 - x0)
                r = float(slope * (x - x0) + y0)
                if r != r:
                    r = float(slope * (x - x1) + y1)
                    if r != r and y0 == y1:
                        r = y0
            return r
    return float(pairs[-1][1])   # x == last node


def expected_fn(spec, d, left, right):
    m = core.model_of_spec(spec)
    dims = spec["dims"]
    rest = [x for x in dims if x != d]
    fib = {}
    for coord in m.coords():
        c = dict(zip(dims, coord))
        fib.setdefault(tuple(c[x] for x in rest), []).append((c[d], m.cells[coord]))
    for k in fib:
        fib[k].sort()

    def val(c):
        pairs = fib[tuple(core.canon_label(c[x]) for x in rest)]
        y = interp1(pairs, c[d], left, right)
        # cross-check the hand-written interpolation with np.interp (validates the oracle)
        ref = float(np.interp(c[d], [p[0] for p in pairs], [float(p[1]) for p in pairs], left=left, right=right))
        if not core.same_scalar(y, ref, tol=True):
            raise RuntimeError("oracle disagrees with np.interp: %r %r %r %r" % (pairs, c[d], y, ref))
        return y
    return val


def classify(cl, labs, new, ax, nd, case):
    lo, hi = min(labs), max(labs)
    for x in new:
        if x < lo:
            cl.add("point:below")
        elif x > hi:
            cl.add("point:above")
        elif x in [float(l) for l in labs]:
            cl.add("point:on-node")
        else:
            cl.add("point:between")
    o = gen.order_of(labs)
    cl.add("axis:size-1" if len(labs) == 1 else "axis:" + o)
    if ax > 0:
        cl.add("axis:not-first")
    cl.add("ndim:1" if nd == 1 else "ndim>=2")
    if case["left"] != "nan":
        cl.add("fill:left-finite")
    if case["right"] != "nan":
        cl.add("fill:right-finite")
    if new != sorted(new):
        cl.add("new:unsorted")
    if not new:
        cl.add("new:empty")
    return (("point:between" in cl or "point:below" in cl or "point:above" in cl) and (o != "inc" or ax > 0))


def run_case(case):
    da = core.env.import_dimarray()
    case = dict(case, new=core.snap_to_nodes(case["new"], case["spec"]["labels"][case["ax"]]))
    spec, ax, new = case["spec"], case["ax"], case["new"]
    dims, labels = spec["dims"], spec["labels"]
    nd = len(dims)
    d = dims[ax]
    a = core.build(spec)
    for i_, ax_ in enumerate(a.axes):            # "leaves the other axes ... unchanged": they carry metadata of their own
        ax_.attrs["long_name"] = "axis %d" % i_
        ax_.attrs["lst"] = [i_]
    def rehearse(objs, call):
        """the same objects were interpolated before, when they held OTHER values under the same labels; then the final values were
        written into their own buffers: the earlier call (and whatever it kept of the sorted / weighted data) must not matter now"""
        finals = [np.array(o.values, copy=True) for o in objs]
        for o in objs:
            if o.values.dtype.kind in "if" and o.values.size:
                o.values[...] = (np.nan_to_num(np.asarray(o.values, dtype=float), nan=0.5, posinf=9.0, neginf=-9.0)[tuple([slice(None, None, -1)] * o.values.ndim)] * 2 + 1).astype(o.values.dtype)
        try:
            with np.errstate(all="ignore"):
                call()
        except Exception:
            pass
        for o, v in zip(objs, finals):
            o.values[...] = v
        cl.add("operand:interpolated-before-with-other-values")
    snap = core.snapshot(a)

    def other_axes_kept(res, interpolated, what):
        for i_, d_ in enumerate(dims):
            if d_ not in interpolated:
                check(core.attrs_equal(res.axes[d_].attrs, {"long_name": "axis %d" % i_, "lst": [i_]}), "other-axis-metadata-not-kept",
                      {"what": what, "dim": d_, "got": core.jsonable(dict(res.axes[d_].attrs))}, sig)
    left = float("nan") if case["left"] == "nan" else case["left"]
    right = float("nan") if case["right"] == "nan" else case["right"]
    kw = {}
    if case["left"] != "nan":
        kw["left"] = left
    if case["right"] != "nan":
        kw["right"] = right
    cl = set(["vk:" + spec["vk"]] + (["data:nan"] if "NaN" in spec["vals"] else []))
    sig = {"mode": case["mode"]}
    nontrivial = classify(cl, labels[ax], new, ax, nd, case)
    what = "%s new=%s %s dims=%s labels=%s vals=%s axis=%s" % (case["mode"], new, kw, dims, labels, spec["vals"], d)
    if case["mode"] == "axis":
        axis = d if case["axis_form"] == "name" else (ax if case["axis_form"] == "pos" else ax - nd)
        kw2 = dict(kw)
        if case["issorted"] and gen.order_of(labels[ax]) in ("inc", "short"):
            kw2["issorted"] = True
            cl.add("issorted:True")
        arg = list(new) if case["new_as"] == "list" else np.array(new, dtype=float)
        if case["new_as"] == "axis-other-name":
            arg = da.Axis(np.array(new, dtype=float), "other_name_")          # an Axis object of another array: only its values count
            cl.add("new:axis-object-of-another-name")
        elif case["new_as"] == "named-dimarray":
            arg = da.DimArray(np.array(new, dtype=float), axes=[da.Axis(np.arange(len(new)), "k_")])
            arg.name = "other_name_"
            cl.add("new:named-dimarray")
        if case.get("rehearse"):
            rehearse([a], lambda: a.interp_axis(arg, axis=axis, **kw2))
        if case.get("positional") and "issorted" not in kw2:
            # the documented signature interp_axis(values, axis=0, left=nan, right=nan, issorted=None), arguments given by position
            res = lib(lambda: a.interp_axis(arg, axis, left, right), what=what + " [axis, left, right by position]", sig=sig)
            cl.add("call:positional")
        else:
            res = lib(lambda: a.interp_axis(arg, axis=axis, **kw2), what=what, sig=sig)
        newlabels = [list(l) for l in labels]
        newlabels[ax] = list(new)
        core.expect_array(res, dims, newlabels, expected_fn(spec, d, left, right), what, tol=True, sig=sig)
        check(core.attrs_equal(res.attrs, spec["attrs"]), "attrs-not-kept", {"what": what, "got": core.jsonable(res.attrs)}, sig)
        other_axes_kept(res, [d], what)
        # numpy.interp returns double precision numbers whatever the data (also for integer data met at its own nodes)
        check(res.values.dtype == np.dtype(float), "result-dtype", {"what": what, "got": str(res.values.dtype), "data": str(a.values.dtype)}, sig)
    elif case["mode"] == "like":
        t = case["template"]
        taxes = da.Axes([da.Axis(np.array(v, dtype=float), k) for k, v in t.items()])
        tt = taxes if case["t_as"] == "axes" else da.DimArray(np.zeros([len(v) for v in t.values()]), axes=list(taxes))
        if case.get("rehearse"):
            rehearse([a], lambda: a.interp_like(tt, **kw))
        res = lib(lambda: a.interp_like(tt, **kw), what=what + " template=%s" % t, sig=sig)
        # sequential definition: one dimension after the other, each by the 1-D rule
        cur = dict(spec)
        for dd in dims:
            if dd in t:
                f = expected_fn(cur, dd, left, right)
                nl = [list(l) for l in cur["labels"]]
                nl[dims.index(dd)] = list(t[dd])
                import itertools
                vals = []
                for idx in itertools.product(*[range(len(l)) for l in nl]):
                    vals.append(f({x: nl[i][k] for i, (x, k) in enumerate(zip(dims, idx))}))
                cur = {"dims": dims, "labels": nl, "vk": "f", "vals": ["NaN" if core.isnan(v) else v for v in vals]}
        mcur = core.model_of_spec(cur) if all(len(l) for l in cur["labels"]) else None
        core.expect_array(res, dims, cur["labels"], (lambda c: mcur.cells[tuple(core.canon_label(c[x]) for x in dims)]), what, tol=True, sig=sig)
        check(core.attrs_equal(res.attrs, spec["attrs"]), "attrs-not-kept", {"what": what, "got": core.jsonable(res.attrs)}, sig)
        other_axes_kept(res, list(t), what)
        cl.add("like")
    else:
        # (in half of the cases the interpolated variable is NAMED like the dimension it is interpolated along: ds[d] is that variable, not the labels)
        mainname = d if (len(new) + len(case["others"])) % 2 == 0 else "main"
        if mainname == d:
            cl.add("dataset:variable-named-like-the-dimension")
        dspec = {"vars": [[mainname, spec]] + [["o%d" % j, o] for j, o in enumerate(case["others"])], "attrs": {"title": "t"}}
        ds = core.build_dataset(dspec)
        axis = d if case["axis_form"] == "name" else (list(ds.dims).index(d) - (len(ds.dims) if case["axis_form"] == "neg" else 0))
        if case.get("rehearse"):
            rehearse([ds[k_] for k_ in ds.keys()], lambda: (ds.interp_axis(list(new), axis=axis, **kw), ds.interp_like(da.Axes([da.Axis(np.array(new, dtype=float), d)]), **kw)))
        ds_new = list(new)
        if case.get("new_as") in ("axis-other-name", "named-dimarray"):
            # the new coordinates as an Axis object that carries the name of ANOTHER dimension of the dataset (or a foreign name): axis= decides
            od_ = [x for x in ds.dims if x != d]
            ds_new = da.Axis(np.array(new, dtype=float), od_[0] if od_ else "other_name_")
            cl.add("dataset:new-as-axis-of-another-dimension" if od_ else "dataset:new-as-axis-of-a-foreign-name")
        res = lib(lambda: ds.interp_axis(ds_new, axis=axis, **kw), what=what + " others=%s" % core.jsonable([[o["dims"], o["labels"]] for o in case["others"]]), sig=sig)
        check(isinstance(res, da.Dataset) and list(res.keys()) == [n for n, _ in dspec["vars"]], "dataset-keys", {"what": what}, sig)
        for name, s in dspec["vars"]:
            if d in s["dims"]:
                nl = [list(l) for l in s["labels"]]
                nl[s["dims"].index(d)] = list(new)
                core.expect_array(res[name], s["dims"], nl, expected_fn(s, d, left, right), what + " var " + name, tol=True, sig=sig)
                check(core.attrs_equal(res[name].attrs, s["attrs"]), "variable-attrs", {"what": what, "var": name, "got": core.jsonable(res[name].attrs)}, sig)
            else:
                core.expect_equal_arrays(res[name], core.build(s), what + " var " + name + " (lacks the axis)", sig=sig)
        core.check_shared_axes(res, what, sig)
        check(core.same_labels(res.axes[d].values, new), "dataset-axis", {"what": what, "got": core.jsonable(res.axes[d].values)}, sig)
        check(core.attrs_equal(res.attrs, dspec["attrs"]), "dataset-attrs", {"what": what, "got": core.jsonable(res.attrs)}, sig)
        # Dataset.interp_like onto a template carrying the same new coordinates: the same result, dataset metadata included
        tmpl = da.Axes([da.Axis(np.array(new, dtype=float), d)])
        res2 = lib(lambda: ds.interp_like(tmpl, **kw), what=what + " [Dataset.interp_like(Axes)]", sig=sig)
        check(isinstance(res2, da.Dataset) and list(res2.keys()) == list(res.keys()), "dataset-keys", {"what": what + " [interp_like]"}, sig)
        for name, s in dspec["vars"]:
            core.expect_equal_arrays(res2[name], res[name], what + " [Dataset.interp_like vs interp_axis] var " + name, tol=True, sig=sig)
            check(core.attrs_equal(res2[name].attrs, s["attrs"]), "variable-attrs", {"what": what + " [interp_like]", "var": name, "got": core.jsonable(res2[name].attrs)}, sig)
        core.check_shared_axes(res2, what + " [interp_like]", sig)
        check(core.attrs_equal(res2.attrs, dspec["attrs"]), "dataset-attrs", {"what": what + " [Dataset.interp_like]", "got": core.jsonable(res2.attrs)}, sig)
        cl.add("dataset")
    core.expect_unchanged(a, snap, what, sig)
    return {"classes": sorted(cl), "nontrivial": bool(nontrivial)}
