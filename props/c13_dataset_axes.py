"""C13 - A Dataset's variables always share the Dataset's axes.

Statement: "After any sequence of Dataset mutations - adding, replacing or deleting variables, renaming or
relabelling axes through the dataset, through one of its variables or in bulk - every variable's axis for a
dimension is the very same object as the dataset's axis for it, the dataset's dimensions are exactly those used
by its variables (plus axes appended to it directly that no variable has used yet), and a changed axis name or
label is immediately visible from the dataset and from all variables.  Assigning an array whose labels disagree
with an existing dataset axis raises ValueError and leaves the dataset as it was.  Constructing a Dataset from
arrays with differing labels aligns them first (outer join)."

Technique: model-based stateful testing.  A history is generated as a *program* (list of integer step
descriptors resolved against the current state), executed on a real Dataset and on a model (ordered dicts);
after every step the whole observable state and the object-identity invariant are compared.
"""
import collections
import copy

import numpy as np
from hypothesis import strategies as st

from vlib import core, gen
from vlib.core import lib, check, Violation

ID = "C13"
TITLE = "A Dataset's variables always share the Dataset's axes"
RULE = ("generated programs of 1-30 steps (quick <= 20) over: ds[k]=array (new / replacing; fewer, more, other dims; DimArray, ndarray 0-d and "
        "scalar values), rejected assignments (labels mismatching on one of the variable's dims, placed before or after a brand-new dim), del, "
        "ds.axes[d].name=, ds[k].axes[d].name=, ds.dims=, set_axis(values | mapper dict | callable, axis by name/position, name=, inplace both), "
        "ds.axes[d]=Axis (by name, by position, with a new name), ds.axes[d][i]=label (kind-changing too), ds.axes.append(Axis), rename_keys, "
        "rename_axes (in place / copy), ds.copy(); starting from an empty Dataset or from one constructed from arrays with differing labels "
        "(outer join).  State and identity are checked after every step.  Non-trivial: a rejection after >= 1 accepted variable, a "
        "replacement changing the dim set, or an axis replaced / renamed / relabelled while >= 2 variables use it.")
ASSUMPTIONS = [
    "model: ordered dict of variables -> (dims, values), ordered dict of axes -> labels, set of directly appended axes",
    "renames only to fresh names (renaming onto a sibling's name is a user error the Axis object cannot see)",
    "Dataset.copy() / inplace=False results are not required to keep appended-but-unused axes",
]
MANDATORY = ["op:set-new", "op:set-replace", "op:reject", "op:del", "op:rename_ds", "op:rename_var", "op:dims", "op:set_axis", "op:axes_set",
             "op:axes_set_int", "op:axes_set_renamed", "op:label", "op:append", "op:rename_keys", "op:rename_axes", "rename_axes:callable", "rename_keys:identity-entries", "label:through-a-variable", "label:set_axis-through-a-variable", "label:attribute-shortcut-dataset", "label:attribute-shortcut-variable", "set_axis:callable-mixed-result-types", "op:copy", "op:derive",
             "start:constructed", "reject-after-accept", "replace-changes-dims", "axis-change-with-2-users", "reject:new-dim-first", "dims:permute-existing", "reject:truncated-labels", "reject:near-miss-labels"]

NAMES = ["x", "y", "z", "w"]
FRESH = ["p", "q", "a", "s", "u", "b", "g", "h"]        # ("a", "b" are also variable keys: a key may equal the name of a dimension)
SPARE = ["n%d" % i for i in range(40)]     # never exhausted within a program (at most 30 steps)
VARS = ["a", "b", "c", "d"]
LABPOOL = {"i": [3, 0, 2, 7, 5], "f": [0.5, 0.0, 1.5, 4.1], "s": ["k", "", "l", "n"]}      # (0, 0.0 and '' are labels like any other; 4.1 is not float32-safe)
OPS = ["set", "set", "set", "set", "reject", "reject", "del", "rename_ds", "rename_var", "dims", "set_axis", "axes_set", "axes_set_int",
       "axes_set_renamed", "label", "append", "rename_keys", "rename_axes", "copy", "derive"]


def budget(tier):
    return {"quick": dict(examples=3500, shards=1), "thorough": dict(examples=15000, shards=16)}[tier]


def strategy(tier):
    maxlen = 20 if tier == "quick" else 30
    step = st.tuples(st.sampled_from(list(range(len(OPS)))), st.integers(0, 50), st.integers(0, 50), st.integers(0, 50), st.integers(0, 50)).map(list)
    return st.fixed_dictionaries({"start": st.sampled_from(["empty", "empty", "constructed"]), "seed": st.integers(0, 50),
                                  "prog": st.lists(step, min_size=1, max_size=maxlen)})


# ----------------------------------------------------------------------------------------------

class Model(object):
    def __init__(self):
        self.vars = collections.OrderedDict()   # name -> (dims tuple, ndarray)
        self.axes = collections.OrderedDict()   # dim -> list of labels
        self.free = set()                       # appended directly, not used by any variable yet

    def users(self, d):
        return [k for k, (dd, _) in self.vars.items() if d in dd]

    def drop_unused(self, candidates):
        for d in candidates:
            if d in self.axes and not self.users(d):
                del self.axes[d]
                self.free.discard(d)

    def rename_axis(self, old, new):
        self.axes = collections.OrderedDict((new if d == old else d, l) for d, l in self.axes.items())
        self.vars = collections.OrderedDict((k, (tuple(new if d == old else d for d in dd), v)) for k, (dd, v) in self.vars.items())
        if old in self.free:
            self.free.discard(old)
            self.free.add(new)

    def clone(self):
        return copy.deepcopy(self)


def mkarr(da, dims, labs, base):
    shape = tuple(len(l) for l in labs)
    v = (np.arange(int(np.prod(shape)) if shape else 1, dtype=float) + base).reshape(shape)
    return da.DimArray(v, axes=[da.Axis(core.label_array(l), d) for l, d in zip(labs, dims)])


def compare(ds, m, what, sig, check_free=True):
    check(list(ds.keys()) == list(m.vars.keys()), "keys", {"what": what, "got": list(ds.keys()), "expected": list(m.vars.keys())}, sig)
    exp_dims = [d for d in m.axes if check_free or d not in m.free]
    if check_free:
        check(list(ds.dims) == exp_dims, "dataset-dims", {"what": what, "got": list(ds.dims), "expected": exp_dims}, sig)
    else:   # a copy: the order of the dataset's dimensions is not part of the statement
        check(sorted(ds.dims) == sorted(exp_dims), "dataset-dims", {"what": what, "got": list(ds.dims), "expected": exp_dims}, sig)
    for d in exp_dims:
        check(core.same_labels(ds.axes[d].values, m.axes[d]), "dataset-labels", {"what": what, "dim": d, "got": core.jsonable(ds.axes[d].values), "expected": core.jsonable(m.axes[d])}, sig)
    for k, (dims, vals) in m.vars.items():
        v = ds[k]
        check(tuple(v.dims) == tuple(dims), "variable-dims", {"what": what, "var": k, "got": list(v.dims), "expected": list(dims)}, sig)
        check(v.values.shape == vals.shape and np.array_equal(v.values, vals, equal_nan=True), "variable-values", {"what": what, "var": k, "got": core.jsonable(v.values), "expected": core.jsonable(vals)}, sig)
        for d in dims:
            check(v.axes[d] is ds.axes[d], "axis-not-shared", {"what": what, "var": k, "dim": d}, sig)
            check(core.same_labels(v.axes[d].values, m.axes[d]), "variable-labels", {"what": what, "var": k, "dim": d}, sig)
    used = set(d for dims, _ in m.vars.values() for d in dims)
    check(set(exp_dims) == used | (m.free & set(exp_dims)), "dims-not-union-of-variables", {"what": what, "dims": exp_dims, "used": sorted(used), "appended": sorted(m.free)}, sig)


def run_case(case):
    da = core.env.import_dimarray()
    prog = case["prog"]
    m = Model()
    cl = set()
    handed = []   # (array handed to the dataset, snapshot): must never change through dataset operations
    sig = {"start": case["start"]}
    if case["start"] == "constructed":
        s = case["seed"]
        la = LABPOOL["i"][:2 + s % 2]
        lb = LABPOOL["i"][1:3 + s % 3]
        if s % 5 == 4:
            lb = [4.1, 0.0] + ([0.5] if s % 2 else [])          # an int-labelled and a float-labelled variable (0 == 0.0 is shared)
        elif s % 5 == 3:
            la, lb = [3, 0, 2, 7][:3 + s % 2], [3, 5, 9, 7][:3 + s % 2]
            lb[-1] = la[-1]                                     # same length, same first and last label, other labels in between
        if s % 7 == 6:
            la, lb = [[0], [3, 2, 7]][::1 if s % 2 else -1]      # one variable with a single (falsy) label that the other one lacks
        elif s % 7 == 5:
            la, lb = [[7], [0]][::1 if s % 2 else -1]            # two single labels
        a1 = mkarr(da, ["x"], [la], 10)
        a2 = mkarr(da, ["x", "y"], [lb, LABPOOL["s"][:2]], 50)
        ds = lib(lambda: da.Dataset(a=a1, b=a2), what="Dataset(a=x%s, b=(x%s, y))" % (la, lb), sig=sig)
        # outer join in first-seen order of union; read the order from the dataset, check set + data
        union = [core.canon_label(x) for x in ds.axes["x"].values.tolist()] if "x" in ds.dims else []
        check(set(union) == set(la) | set(lb) and len(union) == len(set(union)), "constructor-outer-join", {"got": union, "a": la, "b": lb}, sig)
        m.axes["x"] = list(union)
        m.axes["y"] = LABPOOL["s"][:2]
        va = np.full((len(union),), np.nan)
        for i, l in enumerate(la):
            va[union.index(l)] = 10 + i
        vb = np.full((len(union), 2), np.nan)
        for i, l in enumerate(lb):
            vb[union.index(l), :] = [50 + 2 * i, 51 + 2 * i]
        m.vars["a"] = (("x",), va)
        m.vars["b"] = (("x", "y"), vb)
        compare(ds, m, "after construction", sig)
        handed += [(a1, core.snapshot(a1)), (a2, core.snapshot(a2))]
        cl.add("start:constructed")
    else:
        ds = da.Dataset()
    accepted = len(m.vars)

    for si, (opi, a, b, c, e) in enumerate(prog):
        op = OPS[opi % len(OPS)]
        what = "step %d %s(%d,%d,%d,%d)" % (si, op, a, b, c, e)
        sig = {"op": op}
        before = m.clone()
        if op in ("set", "reject"):
            k = VARS[a % len(VARS)]
            pool = list(m.axes.keys()) + [d for d in NAMES + FRESH if d not in m.axes]
            n = e % 4 + (1 if op == "reject" else 0)
            dims = []
            for j in range(n):
                d = pool[(b + j * (c + 1)) % len(pool)]
                if d not in dims:
                    dims.append(d)
            labs = []
            for j, d in enumerate(dims):
                if d in m.axes:
                    labs.append(list(m.axes[d]))
                else:
                    kd = "ifs"[(b + j) % 3]
                    labs.append(LABPOOL[kd][(e % 2):(e % 2) + 1 + (c + j) % 3])
            if op == "reject":
                ex = [j for j, d in enumerate(dims) if d in m.axes and len(m.axes[d]) > 0]
                if not ex:
                    continue
                j = ex[a % len(ex)]
                old = labs[j]
                trunc = [int(x) for x in old] if all(isinstance(x, float) for x in old) else None
                if trunc is not None and c % 3 == 2 and trunc != list(old) and len(set(trunc)) == len(trunc):
                    labs[j] = trunc                                         # int labels that are the truncated float labels
                    cl.add("reject:truncated-labels")
                elif c % 5 == 4 and all(isinstance(x, (int, float)) and not isinstance(x, bool) for x in old) and any(x for x in old):
                    # numerical labels that differ from the dataset's in the sixth significant digit of ONE label only
                    jj = [i_ for i_, x in enumerate(old) if x][e % len([x for x in old if x])]
                    labs[j] = [float(x) * (1 + 3e-6) if i_ == jj else x for i_, x in enumerate(old)]
                    cl.add("reject:near-miss-labels")
                elif len(old) > 1 and c % 2:
                    labs[j] = old[::-1]                                     # same labels, other order
                else:
                    labs[j] = [("zz%d" % i if isinstance(x, str) else 99 + i) for i, x in enumerate(old)]   # other labels
                    if labs[j] == list(old):      # (an earlier 'label' step may have written exactly these)
                        labs[j] = [("yy%d" % i if isinstance(x, str) else 199 + i) for i, x in enumerate(old)]
                # put a brand-new dim before the mismatching one in some programs
                new_first = any(d not in m.axes for d in dims[:j])
                arr = mkarr(da, dims, labs, si * 100)
                core.must_raise(lambda: ds.__setitem__(k, arr), (ValueError,), what + " dims=%s labels=%s (mismatch on %s)" % (dims, labs, dims[j]), sig=sig)
                cl.add("op:reject")
                if accepted:
                    cl.add("reject-after-accept")
                if new_first:
                    cl.add("reject:new-dim-first")
            else:
                form = c % 7
                if not dims and form in (0, 1):
                    arr = float(si) if form == 0 else np.array(float(si))    # scalar / 0-d ndarray values
                    vals = np.array(float(si))
                else:
                    arr = mkarr(da, dims, labs, si * 100) if dims else da.DimArray(np.array(float(si)))
                    vals = np.asarray(arr.values).copy()
                    handed.append((arr, core.snapshot(arr)))
                replace = k in m.vars
                lib(lambda: ds.__setitem__(k, arr), what=what + " dims=%s labels=%s" % (dims, labs), sig=sig)
                old = m.vars.get(k)
                m.vars[k] = (tuple(dims), vals)
                for d, l in zip(dims, labs):
                    if d not in m.axes:
                        m.axes[d] = list(l)
                    m.free.discard(d)
                if old:
                    m.drop_unused([d for d in old[0] if d not in dims])
                    if set(old[0]) != set(dims):
                        cl.add("replace-changes-dims")
                cl.add("op:set-replace" if replace else "op:set-new")
                accepted += 1
        elif op == "del":
            if not m.vars:
                continue
            k = list(m.vars)[a % len(m.vars)]
            lib(lambda: ds.__delitem__(k), what=what + " del %s" % k, sig=sig)
            dims, _ = m.vars.pop(k)
            m.drop_unused(dims)
            cl.add("op:del")
        elif op in ("rename_ds", "rename_var", "rename_axes"):
            if not m.axes:
                continue
            if op == "rename_var":
                ks = [k for k, (dd, _) in m.vars.items() if dd]
                if not ks:
                    continue
                k = ks[a % len(ks)]
                old = m.vars[k][0][b % len(m.vars[k][0])]
            else:
                old = list(m.axes)[a % len(m.axes)]
            fresh = [d for d in NAMES + FRESH + SPARE if d not in m.axes]
            new = fresh[c % len(fresh)]
            if len(m.users(old)) >= 2:
                cl.add("axis-change-with-2-users")
            if op == "rename_ds":
                def f():
                    ds.axes[old].name = new
                lib(f, what=what + " ds.axes[%s].name=%s" % (old, new), sig=sig)
            elif op == "rename_var":
                def f():
                    ds[k].axes[old].name = new
                lib(f, what=what + " ds[%s].axes[%s].name=%s" % (k, old, new), sig=sig)
            else:
                if e % 2 and old not in m.free:   # (a copy need not keep appended-but-unused axes)
                    r = lib(lambda: ds.rename_axes({old: new}, inplace=False), what=what + " rename_axes copy", sig=sig)
                    compare(ds, m, what + " [original after rename_axes(inplace=False)]", sig)
                    m2 = m.clone()
                    m2.rename_axis(old, new)
                    m2.drop_unused(list(m2.free))
                    compare(r, m2, what + " [copy returned by rename_axes]", sig, check_free=False)
                    cl.add("op:rename_axes")
                    continue
                if b % 3 == 2 and len(m.axes) >= 2:
                    # a mapping whose new names are also old names (swap / shift): all names are replaced at once
                    cur = list(m.axes)
                    k_ = 1 + c % (len(cur) - 1)
                    tgt = cur[k_:] + cur[:k_] if e % 3 else cur[1:] + [new]
                    mp = dict(zip(cur, tgt))
                    mp_arg = dict(mp)
                    lib(lambda: ds.rename_axes(mp_arg), what=what + " rename_axes(%s)" % (mp,), sig=sig)
                    check(mp_arg == mp, "mapper-argument-modified", {"what": what + " rename_axes(mapping)", "now": core.jsonable(mp_arg)}, sig)
                    m.axes = collections.OrderedDict((mp[d], l) for d, l in m.axes.items())
                    m.vars = collections.OrderedDict((kk, (tuple(mp[d] for d in dd), v)) for kk, (dd, v) in m.vars.items())
                    m.free = set(mp[d] for d in m.free)
                    cl.add("rename_axes:overlapping-names")
                    cl.add("op:" + op)
                    continue
                if b % 3 == 1:
                    # a callable mapper is applied to every axis of the dataset (also to appended ones that no variable uses yet)
                    if e % 3 == 0:
                        lib(lambda: ds.rename_axes(lambda n: n.swapcase()), what=what + " rename_axes(str.swapcase)", sig=sig)
                        mp = dict((d, d.swapcase()) for d in m.axes)
                        m.axes = collections.OrderedDict((mp[d], l) for d, l in m.axes.items())
                        m.vars = collections.OrderedDict((kk, (tuple(mp[d] for d in dd), v)) for kk, (dd, v) in m.vars.items())
                        m.free = set(mp[d] for d in m.free)
                        cl.add("rename_axes:callable")
                        cl.add("op:" + op)
                        continue
                    lib(lambda: ds.rename_axes(lambda n: new if n == old else n), what=what + " rename_axes(callable %s -> %s)" % (old, new), sig=sig)
                    cl.add("rename_axes:callable")
                else:
                    lib(lambda: ds.rename_axes({old: new}), what=what + " rename_axes({%s: %s})" % (old, new), sig=sig)
            m.rename_axis(old, new)
            cl.add("op:" + op)
        elif op == "dims":
            if not m.axes:
                continue
            fresh = [d for d in NAMES + FRESH + SPARE if d not in m.axes]
            news = [fresh[(a + j) % len(fresh)] for j in range(len(m.axes))]
            cur = list(m.axes)
            if len(cur) >= 2 and b % 3 == 1:
                k = 1 + c % (len(cur) - 1)
                news = cur[k:] + cur[:k]                  # the existing names, rotated (a swap for two dimensions)
                cl.add("dims:permute-existing")
            elif len(cur) >= 2 and b % 3 == 2:
                news = cur[1:] + [fresh[a % len(fresh)]]  # shift: each axis takes its right neighbour's name, the last a fresh one
                if e % 2:
                    news = [fresh[a % len(fresh)]] + cur[:-1]
                cl.add("dims:permute-existing")
            if len(set(news)) != len(news):
                continue
            mp = dict(zip(m.axes, news))

            def f():
                ds.dims = tuple(news)
            lib(f, what=what + " ds.dims=%s" % news, sig=sig)
            for old, new in list(mp.items()):
                pass
            m.axes = collections.OrderedDict((mp[d], l) for d, l in m.axes.items())
            m.vars = collections.OrderedDict((k, (tuple(mp[d] for d in dd), v)) for k, (dd, v) in m.vars.items())
            m.free = set(mp[d] for d in m.free if d in mp)
            cl.add("op:dims")
        elif op in ("set_axis", "axes_set", "axes_set_int", "axes_set_renamed"):
            if not m.axes:
                continue
            di = a % len(m.axes)
            d = list(m.axes)[di]
            n = len(m.axes[d])
            kd = "ifs"[b % 3]
            new = (LABPOOL[kd] * 2)[c % 2:(c % 2) + n]
            if len(set(new)) != n:
                continue
            arrl = core.label_array(new) if new else np.array([], dtype=float)
            if len(m.users(d)) >= 2:
                cl.add("axis-change-with-2-users")
            if op == "set_axis":
                mode = e % 5
                if (mode == 1 and not n) or (mode == 2 and (not n or any(isinstance(x, str) for x in m.axes[d]))):
                    mode = 0
                if mode == 4 and d in m.free:
                    mode = 0                      # (a copy need not keep appended-but-unused axes)
                axis_arg = d if (e // 5) % 2 or mode == 4 else di   # positions refer to the copy's own order with inplace=False
                if mode == 0:
                    lib(lambda: ds.set_axis(arrl, axis=axis_arg), what=what + " set_axis(%s, axis=%r)" % (new, axis_arg), sig=sig)
                    m.axes[d] = list(new)
                elif mode == 1:
                    mapper = {m.axes[d][0]: new[0]} if new[0] not in m.axes[d][1:] else {}
                    mapper_arg = dict(mapper)      # (the mapping is the caller's: it can be used again afterwards)
                    lib(lambda: ds.set_axis(mapper_arg, axis=axis_arg), what=what + " set_axis(mapper %s, axis=%r)" % (mapper, axis_arg), sig=sig)
                    check(mapper_arg == mapper, "mapper-argument-modified", {"what": what + " set_axis(mapper)", "now": core.jsonable(mapper_arg), "was": core.jsonable(mapper)}, sig)
                    if mapper:
                        m.axes[d] = [new[0]] + list(m.axes[d][1:])
                elif mode == 2:
                    first = m.axes[d][0]
                    mixed = [x if x == first else x + 0.5 for x in m.axes[d]]
                    if (e // 5) % 3 == 1 and n >= 2 and len(set(mixed)) == n:
                        # a mapper whose results are of different types (the first label stays what it is, the others become fractional)
                        lib(lambda: ds.set_axis(lambda x: x if x == first else x + 0.5, axis=axis_arg), what=what + " set_axis(callable: first label kept, others + 0.5, axis=%r)" % (axis_arg,), sig=sig)
                        m.axes[d] = mixed
                        cl.add("set_axis:callable-mixed-result-types")
                    else:
                        lib(lambda: ds.set_axis(lambda x: x + 100, axis=axis_arg), what=what + " set_axis(callable +100, axis=%r)" % (axis_arg,), sig=sig)
                        m.axes[d] = [x + 100 for x in m.axes[d]]
                elif mode == 3:
                    fresh = [x for x in NAMES + FRESH + SPARE if x not in m.axes]
                    nn = fresh[c % len(fresh)]
                    lib(lambda: ds.set_axis(arrl, axis=axis_arg, name=nn), what=what + " set_axis(%s, axis=%r, name=%s)" % (new, axis_arg, nn), sig=sig)
                    m.axes[d] = list(new)
                    m.rename_axis(d, nn)
                else:
                    r = lib(lambda: ds.set_axis(arrl, axis=axis_arg, inplace=False), what=what + " set_axis(inplace=False)", sig=sig)
                    compare(ds, m, what + " [original after set_axis(inplace=False)]", sig)
                    m2 = m.clone()
                    m2.axes[d] = list(new)
                    if d in m2.free:
                        pass
                    else:
                        compare(r, m2, what + " [copy returned by set_axis]", sig, check_free=False)
            elif op == "axes_set":
                def f():
                    if e % 3 == 1:
                        ds.axes[d] = arrl               # bare labels
                    elif e % 3 == 2:
                        ds.axes[d] = arrl.tolist()
                    else:
                        ds.axes[d] = da.Axis(arrl, d)
                lib(f, what=what + " ds.axes[%r] = Axis(%s)" % (d, new), sig=sig)
                m.axes[d] = list(new)
            elif op == "axes_set_int":
                def f():
                    ds.axes[di] = da.Axis(arrl, d)
                lib(f, what=what + " ds.axes[%d] = Axis(%s, %r)" % (di, new, d), sig=sig)
                m.axes[d] = list(new)
            else:
                fresh = [x for x in NAMES + FRESH + SPARE if x not in m.axes]
                nn = fresh[c % len(fresh)]

                def f():
                    ds.axes[d if e % 2 else di] = da.Axis(arrl, nn)
                lib(f, what=what + " ds.axes[%r] = Axis(%s, %r)" % (d if e % 2 else di, new, nn), sig=sig)
                m.axes[d] = list(new)
                m.rename_axis(d, nn)
            cl.add("op:" + op)
        elif op == "label":
            if not m.axes:
                continue
            d = list(m.axes)[a % len(m.axes)]
            n = len(m.axes[d])
            if n == 0:
                continue
            i = b % n
            cur = m.axes[d]
            if isinstance(cur[0], str):
                new = "zz%d" % c
            else:
                new = 1000 + c
                if e % 3 == 0:
                    new = new + 0.5
                elif e % 7 == 0:
                    new = "str%d" % c       # kind-changing: numeric axis becomes object
            if any(core.canon_label(x) == core.canon_label(new) for j, x in enumerate(cur) if j != i):
                continue          # (would create a duplicate label: outside the stated domain)
            if len(m.users(d)) >= 2:
                cl.add("axis-change-with-2-users")

            full = [new if j == i else x for j, x in enumerate(cur)]
            users = m.users(d)
            via = (b // 2 + c) % 6
            if via == 1 and users:
                kv = users[(a + b) % len(users)]
                lib(lambda: ds[kv].axes[d].__setitem__(i, new), what=what + " ds[%r].axes[%r][%d] = %r (through a variable)" % (kv, d, i, new), sig=sig)
                cl.add("label:through-a-variable")
            elif via in (4, 5) and users:
                kv = users[(a + b) % len(users)]
                arg = core.label_array(full) if via == 4 else list(full)
                lib(lambda: ds[kv].set_axis(arg, axis=d, inplace=True), what=what + " ds[%r].set_axis(%r, axis=%r, inplace=True) (through a variable)" % (kv, arg, d), sig=sig)
                cl.add("label:set_axis-through-a-variable")
            elif via == 2 and d.isidentifier() and not hasattr(type(ds), d) and d not in ds.keys():
                lib(lambda: setattr(ds, d, core.label_array(full)), what=what + " ds.%s = %r (attribute shortcut through the dataset)" % (d, full), sig=sig)
                cl.add("label:attribute-shortcut-dataset")
            elif via == 3 and users and d.isidentifier() and not hasattr(da.DimArray, d):
                kv = users[(a + b) % len(users)]
                lib(lambda: setattr(ds[kv], d, core.label_array(full)), what=what + " ds[%r].%s = %r (attribute shortcut through a variable)" % (kv, d, full), sig=sig)
                cl.add("label:attribute-shortcut-variable")
            else:
                def f():
                    ds.axes[d][i] = new
                lib(f, what=what + " ds.axes[%r][%d] = %r" % (d, i, new), sig=sig)
            m.axes[d] = full
            cl.add("op:label")
        elif op == "append":
            fresh = [d for d in NAMES + FRESH + SPARE if d not in m.axes]
            d = fresh[a % len(fresh)]
            l = LABPOOL["ifs"[b % 3]][:1 + c % 3]
            lib(lambda: ds.axes.append(da.Axis(core.label_array(l), d)), what=what + " ds.axes.append(Axis(%s, %r))" % (l, d), sig=sig)
            m.axes[d] = list(l)
            m.free.add(d)
            cl.add("op:append")
        elif op == "rename_keys":
            if not m.vars:
                continue
            k = list(m.vars)[a % len(m.vars)]
            fresh = [v for v in VARS + ["e", "f", "g2", "h2", "i2", "j2"] if v not in m.vars]     # (at most six variables can exist: never empty)
            new = fresh[b % len(fresh)]
            if c % 2:
                r = lib(lambda: ds.rename_keys({k: new}, inplace=False), what=what + " rename_keys copy", sig=sig)
                compare(ds, m, what + " [original after rename_keys(inplace=False)]", sig)
                check(set(r.keys()) == (set(m.vars) - {k}) | {new}, "rename_keys-copy", {"what": what, "got": list(r.keys())}, sig)
                core.check_shared_axes(r, what + " [copy]", sig)
            else:
                mp_k = collections.OrderedDict([(k, new)])
                if e % 2:
                    # a mapping built over ALL keys, most of which map onto themselves
                    mp_k = collections.OrderedDict((kk, new if kk == k else kk) for kk in m.vars)
                    cl.add("rename_keys:identity-entries")
                lib(lambda: ds.rename_keys(dict(mp_k)), what=what + " rename_keys(%s)" % (dict(mp_k),), sig=sig)
                m.vars = collections.OrderedDict(list((kk, vv) for kk, vv in m.vars.items() if kk != k) + [(new, m.vars[k])])
            cl.add("op:rename_keys")
        elif op == "derive":
            # continue the history on a dataset *returned* by a dataset-wide operation (take_axis with a permutation / sort_axis)
            if not m.axes:
                continue
            d = list(m.axes)[a % len(m.axes)]
            labs = m.axes[d]
            n = len(labs)
            if n == 0 or len({type(x) is str for x in labs}) > 1:
                continue
            if b % 2:
                perm = sorted(range(n), key=lambda i: labs[i])
                old_ds = ds
                ds = lib(lambda: old_ds.sort_axis(axis=d), what=what + " ds = ds.sort_axis(%r)" % d, sig=sig)
            else:
                perm = [(i + 1 + c) % n for i in range(n)]
                perm = perm if len(set(perm)) == n else list(range(n))
                old_ds = ds
                ds = lib(lambda: old_ds.take_axis(list(perm), axis=d, indexing="position"), what=what + " ds = ds.take_axis(%s, %r)" % (perm, d), sig=sig)
            compare(old_ds, m, what + " [source dataset after the derivation]", sig)
            m.axes[d] = [labs[i] for i in perm]
            for k2, (dd, v) in list(m.vars.items()):
                if d in dd:
                    m.vars[k2] = (dd, np.take(v, perm, axis=dd.index(d)))
            cl.add("op:derive")
        elif op == "copy":
            old_ds = ds
            ds = lib(lambda: old_ds.copy(), what=what + " ds.copy()", sig=sig)
            compare(old_ds, m, what + " [original after copy()]", sig)
            m.drop_unused(list(m.free))
            m.free = set()
            compare(ds, m, what + " [the copy]", sig, check_free=False)
            m.axes = collections.OrderedDict((d, m.axes[d]) for d in ds.dims)   # continue with the copy's own dimension order
            cl.add("op:copy")
        # ---- invariant after every step
        compare(ds, m, what + " [state after step]", sig)
        for arr, snap in handed:
            core.expect_unchanged(arr, snap, what + " [array that was handed to the dataset earlier]", sig)
    nontrivial = bool({"reject-after-accept", "replace-changes-dims", "axis-change-with-2-users"} & cl)
    return {"classes": sorted(cl), "nontrivial": nontrivial}
