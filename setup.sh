#!/bin/bash
# Offline setup: the checks are pure Python and run from /repo's working tree; all we need is
# hypothesis + numpy in /venv (hypothesis is installed from the offline wheelhouse if missing).
set -e
cd "$(dirname "${BASH_SOURCE[0]}")"
if ! /venv/bin/python -c "import hypothesis, numpy" 2>/dev/null; then
  /venv/bin/pip install --no-index --find-links /opt/veriftools/wheels hypothesis
fi
/venv/bin/python -c "import hypothesis, numpy; print('hypothesis', hypothesis.__version__, 'numpy', numpy.__version__)"
mkdir -p evidence replays
chmod +x check tools/*.sh 2>/dev/null || true
